"""Shape recognisers that tolerate the usual equivalent spellings: min(a, b) as a call, as an if/else select or behind a
private helper; iteration variables of a `for` loop and of an iterator adaptor closure over a range."""
from .facts import op_place
from .flow import Ev, walk, show, strip, resolve_upvars
from .gate import comparisons, switch_on, edge_dominates, Classifier
from .util import closure_use_sites


def uncast(t):
    t = strip(t)
    while t[0] == "cast":
        t = strip(t[1])
    return t


def _root(body, l):
    for _ in range(8):
        ds = [d for d in body.defs.get(l, []) if not d[2]["p"]]
        if len(ds) != 1 or ds[0][3]["k"] != "use":
            break
        p = op_place(ds[0][3]["op"])
        if p is None or p["p"]:
            break
        l = p["l"]
    return l


def min_parts(prog, body, ev, term, depth=0):
    """If `term` is min(x, y) - `Ord::min` / `cmp::min`, an if/else that selects the smaller of two values, or a call to a workspace
    helper whose return value is one of these over its parameters - return the pair of operand terms (casts kept), else None."""
    t = strip(term)
    if t[0] == "call":
        name = t[1]
        if name.endswith("::min") and len(t[2]) == 2:
            return (t[2][0], t[2][1])
        hb = prog.bodies.get(name)
        if hb is not None and depth < 2 and len(hb.blocks) <= 40:
            hev = Ev(prog, hb)
            rets = hb.return_blocks()
            if len(rets) == 1:
                inner = min_parts(prog, hb, hev, hev.place({"l": 0, "p": []}, (rets[0], "T")), depth + 1)
                if inner is not None:
                    def sub(x):
                        x = strip(x)
                        if x[0] == "param" and 1 <= x[1] <= len(t[2]):
                            return t[2][x[1] - 1]
                        if x[0] == "cast":
                            return ("cast", sub(x[1])) + tuple(x[2:])
                        return x
                    return (sub(inner[0]), sub(inner[1]))
        return None
    if t[0] == "phi":
        alts = [a for a in t[1] if strip(a)[0] != "cycle"]
        if len(alts) != 2:
            return None
        A, B = alts
        sa, sb = show(uncast(A)), show(uncast(B))
        # a comparison between the two alternatives decides which one is taken, and each is taken where it is the smaller
        for c in comparisons(prog, body, ev):
            if c["op"] not in ("Lt", "Le", "Gt", "Ge"):
                continue
            ca, cb = show(uncast(c["a"])), show(uncast(c["b"]))
            if {ca, cb} != {sa, sb} or ca == cb:
                continue
            sw = switch_on(body, c["sw_block"], c["lhs"]["l"])
            if not sw:
                continue
            # edge on which c.a is the smaller (or equal)
            a_small_edge = sw[0] if c["op"] in ("Lt", "Le") else sw[1]
            b_small_edge = sw[1] if c["op"] in ("Lt", "Le") else sw[0]
            # the definitions of the selected value: which alternative is assigned under which edge
            ok = True
            seen = 0
            for L, defs in body.defs.items():
                ds = [d for d in defs if not d[2]["p"]]
                if len(ds) != 2:
                    continue
                vals = [show(uncast(ev._rvalue(d[3], (d[0], d[1]), 0))) for d in ds]
                if set(vals) != {sa, sb}:
                    continue
                seen += 1
                for d, v in zip(ds, vals):
                    edge = a_small_edge if v == ca else b_small_edge
                    if not edge_dominates(body, c["sw_block"], edge, d[0]):
                        ok = False
            if seen and ok:
                return (A, B)
        return None
    return None


def is_range_iter_param(prog, cbody, term):
    """is `term` (inside closure body cbody) the parameter that receives the items of an iterator adaptor (any / all / find / map /
    for_each / position / filter ...) applied to a range in the parent?"""
    t = strip(term)
    while t[0] in ("cast", "field", "variant"):
        t = strip(t[1])
    if t[0] != "param" or t[1] < 2 or cbody.kind != "Closure":
        return False
    parent = prog.bodies.get(cbody.parent) if getattr(cbody, "parent", None) else None
    if parent is None:
        parent = prog.bodies.get(cbody.path.rsplit("::{closure", 1)[0])
    if parent is None:
        return False
    pev = Ev(prog, parent)
    for bi, tm in closure_use_sites(prog, parent, cbody.path):
        c = parent.callee_decl(tm) or ""
        if "Iterator" in c or "iter::" in c:
            recv = pev.operand(tm["args"][0], (bi, "T"))
            if any(isinstance(x, tuple) and x and x[0] == "agg" and str(x[1]).endswith("ops::Range") for x in walk(recv)):
                return True
    return False
