"""PANIC-AUDIT (DESIGN 4.6): collect potential panic sites of a body and discharge them with
type-range intervals over terms, constant-comparison refinement and relational guards."""
from .facts import op_place
from .flow import Ev, walk, resolve_upvars, show, strip
from .gate import comparisons, switch_on, edge_dominates, linear, SWAP, NEG
from .util import discr_switches

INT_RANGES = {
    "u8": (0, 2**8 - 1), "u16": (0, 2**16 - 1), "u32": (0, 2**32 - 1), "u64": (0, 2**64 - 1), "u128": (0, 2**128 - 1), "usize": (0, 2**64 - 1),
    "i8": (-2**7, 2**7 - 1), "i16": (-2**15, 2**15 - 1), "i32": (-2**31, 2**31 - 1), "i64": (-2**63, 2**63 - 1), "i128": (-2**127, 2**127 - 1), "isize": (-2**63, 2**63 - 1),
}
PANIC_CALLS = ("core::panicking::panic", "std::rt::begin_panic", "core::panicking::panic_fmt", "std::rt::panic_fmt", "core::panicking::unreachable_display",
               "core::panicking::assert_failed", "core::panicking::panic_explicit", "core::panicking::panic_display", "std::process::abort",
               "core::panicking::panic_nounwind")
UNWRAPS = ("Option::<T>::unwrap", "Option::<T>::expect", "Result::<T, E>::unwrap", "Result::<T, E>::expect", "Result::<T, E>::unwrap_err", "Result::<T, E>::expect_err")
PANICKY_OPS = ("<std::time::Duration as std::ops::Sub>::sub", "<std::time::Instant as std::ops::Sub", "std::time::Instant::duration_since",
               "ArrayVec::<T, CAP>::push", "std::ops::Index::index", "std::ops::IndexMut::index_mut", "slice::<impl [T]>::copy_from_slice",
               "std::time::Duration::from_secs_f64", "<std::time::Duration as std::ops::Add>::add", "<std::time::Instant as std::ops::Add")


import re
_INT_OP = re.compile(r"<&?(?:mut )?((?:u|i)(?:8|16|32|64|128|size)) as std::ops::(Add|Sub|Mul|AddAssign|SubAssign|MulAssign|Div|Rem)<")


class Site:
    def __init__(self, body, block, kind, what, ops, line, exp, ty=""):
        self.body = body
        self.block = block
        self.kind = kind      # overflow / divzero / bounds / unwrap / panic / cast / op
        self.what = what
        self.ops = ops        # operand dicts (for asserts) or call args
        self.line = line
        self.exp = exp
        self.ty = ty
        self.reason = None

    @property
    def key(self):
        return "%s:%s" % (self.kind, self.what)


def sites(body, include_casts=True):
    out = []
    for bi, blk in enumerate(body.blocks):
        if blk.get("cleanup"):
            continue
        t = blk["t"]
        if t["k"] == "assert":
            msg = t["msg"]
            kind = "overflow" if msg.startswith("Overflow") else ("divzero" if "ByZero" in msg else ("bounds" if msg.startswith("BoundsCheck") else "assert"))
            out.append(Site(body, bi, kind, msg, t["ops"], t["line"], t.get("exp", "")))
        elif t["k"] == "call":
            c = body.callee_decl(t) or ""
            r = body.callee(t) or ""
            if any(c.startswith(p) for p in PANIC_CALLS):
                out.append(Site(body, bi, "panic", c.rsplit("::", 1)[-1], t["args"], t["line"], t.get("exp", "")))
            elif any(c.endswith(u) for u in UNWRAPS):
                out.append(Site(body, bi, "unwrap", c.split("::")[-3].split("<")[0] + "::" + c.rsplit("::", 1)[-1] if c.count("::") >= 2 else c, t["args"], t["line"], t.get("exp", "")))
            elif _INT_OP.search(r or c):
                m = _INT_OP.search(r or c)
                opn = {"Add": "Add", "Sub": "Sub", "Mul": "Mul", "AddAssign": "Add", "SubAssign": "Sub", "MulAssign": "Mul", "Div": "Div", "Rem": "Rem"}[m.group(2)]
                out.append(Site(body, bi, "overflow" if opn in ("Add", "Sub", "Mul") else "divzero", "Overflow(%s)" % opn, t["args"], t["line"], t.get("exp", "")))
                out[-1].int_ty = m.group(1)
            elif any(p in c or p in r for p in PANICKY_OPS):
                out.append(Site(body, bi, "op", (r or c).rsplit("::", 2)[-2][-40:] + "::" + (r or c).rsplit("::", 1)[-1], t["args"], t["line"], t.get("exp", "")))
        if include_casts:
            for s in blk["s"]:
                if s["k"] == "assign" and s["rv"]["k"] == "cast" and s["rv"]["ck"] == "IntToInt":
                    fr, to = s["rv"].get("from", ""), s["rv"]["ty"]
                    if fr in INT_RANGES and to in INT_RANGES:
                        (flo, fhi), (tlo, thi) = INT_RANGES[fr], INT_RANGES[to]
                        if flo < tlo or fhi > thi:
                            out.append(Site(body, bi, "cast", "%s as %s" % (fr, to), [s["rv"]["op"]], s["line"], s.get("exp", ""), ty=to))
                            out[-1].stmt = s
    return out


# A relational guard `a >= b` discharges `a - b` only if both mention the SAME values. Two calls of a function that reads the clock, an atomic,
# a lock, a channel or an iterator are different values even when they render alike: such calls are keyed by their call site.
IMPURE_LAST = ("now", "elapsed", "load", "swap", "compare_exchange", "compare_exchange_weak", "fetch_add", "fetch_sub", "fetch_update", "fetch_max", "fetch_min",
               "next", "recv", "try_recv", "poll", "lock", "read", "write", "try_lock", "borrow", "borrow_mut", "get_mut", "pop", "pop_front", "pop_back", "take", "replace",
               "duration_since_epoch", "current_timestamp", "random", "gen", "new_v4", "now_v7")
_IMPURE = {}


def impure(prog, path, depth=0):
    if path in _IMPURE:
        return _IMPURE[path]
    last = path.rsplit("::", 1)[-1]
    if last in IMPURE_LAST and not path.startswith(("core::num::", "core::slice::")):
        _IMPURE[path] = True
        return True
    _IMPURE[path] = False          # recursion guard
    r = False
    if path in prog.bodies and depth < 4:
        for b in prog.family(path):
            for _, t in b.calls():
                c = b.callee(t) or b.callee_decl(t) or ""
                if c and c != path and impure(prog, c, depth + 1):
                    r = True
                    break
            if r:
                break
    _IMPURE[path] = r
    return r


def rkey(prog, t):
    """rendering of a term for relational facts: equal keys mean equal values"""
    s_ = show(t)
    ids = [(x[1].rsplit("::", 1)[-1], x[3]) for x in walk(t) if isinstance(x, tuple) and x and x[0] == "call" and len(x) >= 5 and impure(prog, x[1])]
    return s_ + ("#" + repr(ids) if ids else "")


class Intervals:
    """interval of a term, using constant, cast and modulo knowledge plus refinements that hold at a block"""

    def __init__(self, prog, body, ev=None):
        self.prog = prog
        self.body = body
        self.ev = ev or Ev(prog, body)
        self._cmps = None
        self._consts = prog.consts

    def cmps(self):
        if self._cmps is None:
            self._cmps = list(comparisons(self.prog, self.body, self.ev))
        return self._cmps

    def refinements(self, block):
        """(term string -> (lo, hi)) implied by comparison-with-constant edges dominating `block`, plus
        relational facts {(a_str, b_str): 'ge'|'gt'} for a >= b / a > b"""
        num = {}
        rel = set()
        for c in self.cmps():
            sw = switch_on(self.body, c["sw_block"], c["lhs"]["l"])
            if not sw:
                continue
            for truth, dst in ((True, sw[0]), (False, sw[1])):
                if not edge_dominates(self.body, c["sw_block"], dst, block):
                    continue
                op = c["op"] if truth else NEG[c["op"]]
                a, b = strip(c["a"]), strip(c["b"])
                ca, cb = self.const_of(a), self.const_of(b)
                if cb is not None and ca is None:
                    self._refine(num, a, op, cb)
                elif ca is not None and cb is None:
                    self._refine(num, b, SWAP[op], ca)
                else:
                    sa, sb_ = rkey(self.prog, a), rkey(self.prog, b)
                    if op in ("Ge", "Gt"):
                        rel.add((sa, sb_, op))
                    elif op in ("Le", "Lt"):
                        rel.add((sb_, sa, "Ge" if op == "Le" else "Gt"))
                    elif op == "Eq":
                        rel.add((sa, sb_, "Ge"))
                        rel.add((sb_, sa, "Ge"))
        # Ordering match arms: `match a.cmp(&b) { Greater => .., Less => .., Equal => .. }`
        for sb, place, targets, otherwise in discr_switches(self.body):
            term = strip(self.ev.place(place, (sb, "T")))
            if term[0] == "call" and term[1].endswith("::cmp") and len(term[2]) == 2:
                a, b = rkey(self.prog, strip(term[2][0])), rkey(self.prog, strip(term[2][1]))
                # Ordering: Less = -1 (255), Equal = 0, Greater = 1
                for v, tgt in list(targets.items()) + [("otherwise", otherwise)]:
                    if not edge_dominates(self.body, sb, tgt, block):
                        continue
                    if v == "1":
                        rel.add((a, b, "Gt"))
                    elif v in ("255", "-1", "18446744073709551615"):
                        rel.add((b, a, "Gt"))
                    elif v == "0":
                        rel.add((a, b, "Ge"))
                        rel.add((b, a, "Ge"))
                    elif v == "otherwise":
                        known = set(targets.keys())
                        if known == {"0", "1"}:
                            rel.add((b, a, "Gt"))
                        elif known >= {"0"} and any(k in known for k in ("255", "-1")) and "1" not in known:
                            rel.add((a, b, "Gt"))
        return num, rel

    def _refine(self, num, term, op, c):
        k = show(term)
        lo, hi = num.get(k, (None, None))
        if op == "Lt":
            hi = c - 1 if hi is None else min(hi, c - 1)
        elif op == "Le":
            hi = c if hi is None else min(hi, c)
        elif op == "Gt":
            lo = c + 1 if lo is None else max(lo, c + 1)
        elif op == "Ge":
            lo = c if lo is None else max(lo, c)
        elif op == "Eq":
            lo, hi = c, c
        elif op == "Ne":
            # useful at the ends of an unsigned range only
            if c == 0:
                lo = 1 if lo is None else max(lo, 1)
            else:
                num[k + "!="] = (c, c)
        num[k] = (lo, hi)

    def const_of(self, t):
        t = strip(t)
        if t[0] == "const":
            if t[2] is not None:
                return t[2]
            return None
        return None

    def interval(self, term, ty, num, depth=0):
        full = INT_RANGES.get(ty, (None, None))
        if depth > 30:
            return full
        t = term
        lo, hi = full
        if not isinstance(t, tuple) or not t:
            return full
        k = t[0]
        res = full
        if k == "const":
            if t[2] is not None:
                res = (t[2], t[2])
        elif k == "cast":
            inner_ty = t[3] if len(t) > 3 else ""
            ilo, ihi = self.interval(t[1], inner_ty, num, depth + 1)
            if ilo is not None and lo is not None and ilo >= lo and ihi <= hi:
                res = (ilo, ihi)
            else:
                res = full
        elif k == "field" and t[2] == "0" and t[1][0] == "bin" and t[1][1].endswith("WithOverflow"):
            res = self._arith(t[1][1].replace("WithOverflow", ""), t[1][2], t[1][3], ty, num, depth, clamp=False)
        elif k == "bin":
            res = self._arith(t[1], t[2], t[3], ty, num, depth, clamp=True)
        elif k == "phi":
            los, his = [], []
            for a in t[1]:
                if strip(a)[0] == "cycle":
                    continue
                al, ah = self.interval(a, ty, num, depth + 1)
                if al is None:
                    return full
                los.append(al)
                his.append(ah)
            if los:
                res = (min(los), max(his))
        elif k == "call":
            name = t[1]
            if (name.endswith("::min") or name == "std::cmp::min") and len(t[2]) == 2:
                a = self.interval(t[2][0], ty, num, depth + 1)
                b = self.interval(t[2][1], ty, num, depth + 1)
                if a[0] is not None and b[0] is not None:
                    res = (min(a[0], b[0]), min(a[1], b[1]))
            elif (name.endswith("::max") or name == "std::cmp::max") and len(t[2]) == 2:
                a = self.interval(t[2][0], ty, num, depth + 1)
                b = self.interval(t[2][1], ty, num, depth + 1)
                if a[0] is not None and b[0] is not None:
                    res = (max(a[0], b[0]), max(a[1], b[1]))
            elif name.endswith("::saturating_sub") and len(t[2]) == 2:
                a = self.interval(t[2][0], ty, num, depth + 1)
                if a[0] is not None:
                    res = (lo, a[1])
        # refinements known for exactly this term
        r = num.get(show(term)) or num.get(show(strip(term)))
        if r and res[0] is not None:
            rl, rh = r
            res = (max(res[0], rl) if rl is not None else res[0], min(res[1], rh) if rh is not None else res[1])
        return res

    def _arith(self, op, a, b, ty, num, depth, clamp):
        full = INT_RANGES.get(ty, (None, None))
        ia = self.interval(a, ty, num, depth + 1)
        ib = self.interval(b, ty, num, depth + 1)
        if ia[0] is None or ib[0] is None:
            return full
        if op in ("Add", "AddUnchecked"):
            r = (ia[0] + ib[0], ia[1] + ib[1])
        elif op in ("Sub", "SubUnchecked"):
            r = (ia[0] - ib[1], ia[1] - ib[0])
        elif op in ("Mul", "MulUnchecked"):
            c = [ia[0] * ib[0], ia[0] * ib[1], ia[1] * ib[0], ia[1] * ib[1]]
            r = (min(c), max(c))
        elif op == "Div":
            if ib[0] <= 0:
                return full
            r = (ia[0] // ib[1], ia[1] // ib[0])
        elif op == "Rem":
            if ib[1] is None or ib[1] <= 0:
                return full
            r = (0, min(ia[1], ib[1] - 1)) if ia[0] >= 0 else full
        elif op == "BitAnd":
            r = (0, min(ia[1], ib[1])) if ia[0] >= 0 and ib[0] >= 0 else full
        elif op == "Shr":
            r = (0, ia[1]) if ia[0] >= 0 else full
        else:
            return full
        if clamp and full[0] is not None and (r[0] < full[0] or r[1] > full[1]):
            return full
        return r


def audit(prog, body, allow=None, include_casts=True, skip_macros=("debug_assert", "tracing", "event", "debug", "info", "warn", "error", "trace", "instrument")):
    """returns (discharged [(site, reason)], open [site])"""
    allow = allow or {}
    ev = Ev(prog, body)
    iv = Intervals(prog, body, ev)
    done, opn = [], []
    occ = {}
    for s in sites(body, include_casts):
        if s.exp.startswith("macro:") and any(m in s.exp for m in skip_macros):
            continue
        occ[s.key] = occ.get(s.key, 0) + 1
        s.occurrence = occ[s.key]
        akey = (s.key, s.occurrence)
        if akey in allow or s.key in allow:
            s.reason = "allow-listed: " + (allow.get(akey) or allow.get(s.key))
            done.append((s, s.reason))
            continue
        num, rel = iv.refinements(s.block)
        reason = None
        if s.kind == "overflow":
            op = s.what[s.what.index("(") + 1:-1]
            a = resolve_upvars(prog, ev.operand(s.ops[0], (s.block, "T")), body)
            b = resolve_upvars(prog, ev.operand(s.ops[1], (s.block, "T")), body)
            ty = getattr(s, "int_ty", None) or _op_ty(body, s.ops[0]) or _op_ty(body, s.ops[1])
            full = INT_RANGES.get(ty)
            if full:
                r = iv._arith(op, a, b, ty, num, 0, clamp=False)
                if r[0] is not None and r[0] >= full[0] and r[1] <= full[1] and r != full:
                    reason = "interval %s in %s" % (r, ty)
                elif op == "Sub":
                    sa, sb_ = rkey(prog, strip(a)), rkey(prog, strip(b))
                    if (sa, sb_, "Ge") in rel or (sa, sb_, "Gt") in rel:
                        reason = "relational guard %s >= %s" % (sa[:30], sb_[:30])
                    else:
                        cb_ = iv.const_of(b)
                        ia = iv.interval(a, ty, num)
                        if cb_ is not None and ia[0] is not None and ia[0] >= cb_:
                            reason = "lower bound %s >= %d" % (sa[:30], cb_)
                elif op == "Add":
                    cb_ = iv.const_of(b)
                    ia = iv.interval(a, ty, num)
                    if cb_ is not None and ia[1] is not None and ia[1] + cb_ <= full[1]:
                        reason = "upper bound %s" % (ia,)
            s.detail = "%s(%s, %s) : %s" % (op, show(a)[:60], show(b)[:60], ty)
        elif s.kind == "divzero":
            d = resolve_upvars(prog, ev.operand(s.ops[0], (s.block, "T")), body)
            ty = _op_ty(body, s.ops[0])
            t_ = body.term(s.block)
            if t_["k"] == "assert":
                # the assert's condition is `divisor == 0`; the message only carries the dividend
                cond = strip(ev.operand(t_["cond"], (s.block, "T")))
                if cond[0] == "bin" and cond[1] == "Eq":
                    d = resolve_upvars(prog, cond[2], body)
            elif len(s.ops) > 1:
                d = resolve_upvars(prog, ev.operand(s.ops[1], (s.block, "T")), body)
            r = iv.interval(d, ty, num)
            if r[0] is not None and r[0] >= 1:
                reason = "divisor in %s" % (r,)
            s.detail = "divisor %s" % show(d)[:60]
        elif s.kind == "cast":
            v = resolve_upvars(prog, ev.operand(s.ops[0], (s.block, "T")), body)
            fr = s.what.split(" as ")[0]
            r = iv.interval(v, fr, num)
            tlo, thi = INT_RANGES[s.ty]
            if r[0] is not None and r[0] >= tlo and r[1] <= thi:
                reason = "value in %s fits %s" % (r, s.ty)
            s.detail = "%s = %s" % (s.what, show(v)[:70])
        elif s.kind == "op" and "Duration as std::ops::Sub" in s.what or (s.kind == "op" and s.what.endswith("::sub")):
            a = rkey(prog, strip(resolve_upvars(prog, ev.operand(s.ops[0], (s.block, "T")), body)))
            b = rkey(prog, strip(resolve_upvars(prog, ev.operand(s.ops[1], (s.block, "T")), body)))
            if (a, b, "Ge") in rel or (a, b, "Gt") in rel:
                reason = "relational guard %s >= %s" % (a[:30], b[:30])
            s.detail = "%s - %s" % (a[:50], b[:50])
        if reason:
            s.reason = reason
            done.append((s, reason))
        else:
            opn.append(s)
    return done, opn


def _op_ty(body, op):
    p = op_place(op)
    if p is not None and not p["p"]:
        return body.local_ty(p["l"])
    if "c" in op:
        return op.get("ty", "")
    return ""
