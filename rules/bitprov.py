"""BITPROV (DESIGN 4.7): abstract interpretation of small integer / byte-array functions with
one symbol per bit: 0, 1, ('in', name, i) or 'T' (unknown).

Uuid, [u8; 16] and u128 are all modelled as one 128-bit vector (byte i of the big-endian array is
bits 127-8i .. 120-8i). The interpreter executes `mir_built` bodies path by path (forking on
switches over unknown values) and returns, per path, the abstract return value."""
from .facts import op_place

T = "T"
WIDTH = {"u8": 8, "u16": 16, "u32": 32, "u64": 64, "u128": 128, "usize": 64, "i8": 8, "i16": 16, "i32": 32, "i64": 64, "i128": 128, "isize": 64, "bool": 1,
         "uuid::Uuid": 128, "[u8; 16]": 128}
IDENTITY128 = ("uuid::Uuid::as_bytes", "uuid::Uuid::into_bytes", "uuid::builder::<impl uuid::Uuid>::from_bytes", "core::num::<impl u128>::to_be_bytes",
               "core::num::<impl u128>::from_be_bytes", "uuid::builder::<impl uuid::Uuid>::from_u128", "uuid::Uuid::as_u128", "uuid::builder::<impl uuid::Uuid>::from_bytes_ref")


def width_of(ty):
    ty = ty.strip()
    while ty.startswith("&"):
        ty = ty[1:].strip()
        if ty.startswith("mut "):
            ty = ty[4:]
        if ty.startswith("'"):
            ty = ty.split(" ", 1)[1] if " " in ty else ty
    return WIDTH.get(ty)


def const_bv(v, w):
    return [(v >> i) & 1 for i in range(w)]


def inputs(name, w):
    return [("in", name, i) for i in range(w)]


def is_const(bv):
    return all(b in (0, 1) for b in bv)


def to_int(bv):
    return sum((b << i) for i, b in enumerate(bv))


def b_and(a, b):
    if a == 0 or b == 0:
        return 0
    if a == 1:
        return b
    if b == 1:
        return a
    if a == b:
        return a
    return T


def b_or(a, b):
    if a == 1 or b == 1:
        return 1
    if a == 0:
        return b
    if b == 0:
        return a
    if a == b:
        return a
    return T


class Overlap(Exception):
    pass


class Interp:
    def __init__(self, prog, max_paths=64):
        self.prog = prog
        self.max_paths = max_paths
        self.notes = []
        self.fresh = 0

    def run(self, path, args, depth=0):
        """returns list of (path condition list, return bv)"""
        body = self.prog.body(path)
        env = {}
        for i, a in enumerate(args):
            env[i + 1] = a
        results = []
        work = [(0, env, [])]
        n = 0
        while work:
            n += 1
            if n > 4000:
                raise RuntimeError("bitprov: path explosion in %s" % path)
            bi, env, cond = work.pop()
            env = dict(env)
            blk = body.blocks[bi]
            for s in blk["s"]:
                if s["k"] == "assign":
                    self.assign(body, env, s["lhs"], self.rvalue(body, env, s["rv"], s))
            t = blk["t"]
            k = t["k"]
            if k == "return":
                results.append((cond, env.get(0)))
            elif k == "goto" or k == "drop":
                work.append((t["target"], env, cond))
            elif k == "assert":
                work.append((t["target"], env, cond))
            elif k == "switch":
                v = self.operand(body, env, t["op"])
                if v is not None and is_const(v):
                    iv = to_int(v)
                    tgt = None
                    for val, tg in t["targets"]:
                        if int(val) == iv:
                            tgt = tg
                    work.append((tgt if tgt is not None else t["otherwise"], env, cond))
                else:
                    desc = v[0] if v and len(v) == 1 else "?"
                    for val, tg in t["targets"]:
                        work.append((tg, env, cond + [(desc, int(val))]))
                    work.append((t["otherwise"], env, cond + [(desc, "other")]))
            elif k == "call":
                self.call(body, env, t, depth)
                if t.get("target") is not None:
                    work.append((t["target"], env, cond))
            elif k in ("unreachable", "unwind"):
                pass
            else:
                raise RuntimeError("bitprov: unsupported terminator %s in %s" % (k, path))
        return results

    # ---- places
    def read_place(self, body, env, p):
        v = env.get(p["l"])
        w = width_of(body.local_ty(p["l"]))
        for e in p["p"]:
            if e == "*":
                continue
            if isinstance(e, dict) and ("ix" in e or "cix" in e):
                if "ix" in e:
                    iv = env.get(e["ix"])
                    if iv is None or not is_const(iv):
                        return None
                    idx = to_int(iv)
                else:
                    idx = e["cix"]
                if v is None or len(v) != 128:
                    return None
                hi = 127 - 8 * idx
                v = v[hi - 7:hi + 1]
            elif isinstance(e, dict) and "f" in e:
                # tuple field of a checked-arithmetic result: (value, overflow flag)
                if isinstance(v, tuple) and v and v[0] == "tuple":
                    v = v[1][e["f"]]
                else:
                    return None
            else:
                return None
        return v

    def assign(self, body, env, lhs, val):
        if not lhs["p"]:
            env[lhs["l"]] = val
            return
        pr = [e for e in lhs["p"] if e != "*"]
        if len(pr) == 1 and isinstance(pr[0], dict) and ("ix" in pr[0] or "cix" in pr[0]):
            base = env.get(lhs["l"])
            if "ix" in pr[0]:
                iv = env.get(pr[0]["ix"])
                idx = to_int(iv) if iv is not None and is_const(iv) else None
            else:
                idx = pr[0]["cix"]
            if base is None or len(base) != 128 or idx is None or val is None or len(val) != 8:
                env[lhs["l"]] = [T] * 128 if base is not None and len(base) == 128 else None
                return
            hi = 127 - 8 * idx
            nb = list(base)
            nb[hi - 7:hi + 1] = val
            env[lhs["l"]] = nb
            return
        # unknown store: forget the local
        w = width_of(body.local_ty(lhs["l"]))
        env[lhs["l"]] = [T] * w if w else None

    def operand(self, body, env, op):
        if "c" in op:
            w = width_of(op.get("ty", ""))
            if "v" in op and w:
                v = int(op["v"])
                if v < 0:
                    v += 1 << w
                return const_bv(v, w)
            c = op["c"]
            if c in ("const true", "true"):
                return [1]
            if c in ("const false", "false"):
                return [0]
            if op.get("named") and op["named"] in self.prog.consts and w:
                return const_bv(self.prog.consts[op["named"]], w)
            return None
        p = op_place(op)
        return self.read_place(body, env, p)

    def rvalue(self, body, env, rv, stmt):
        k = rv["k"]
        if k == "use":
            return self.operand(body, env, rv["op"])
        if k == "ref" or k == "rawptr":
            return self.read_place(body, env, rv["place"])
        if k == "cast":
            v = self.operand(body, env, rv["op"])
            w = width_of(rv["ty"])
            if v is None or w is None or isinstance(v, tuple):
                return [T] * w if w else None
            if len(v) >= w:
                return v[:w]
            return v + [0] * (w - len(v))  # zero extension (sources are unsigned here)
        if k == "agg":
            if rv["ak"] == "tuple":
                return ("tuple", [self.operand(body, env, o) for o in rv["ops"]])
            return None
        if k == "bin":
            a = self.operand(body, env, rv["a"])
            b = self.operand(body, env, rv["b"])
            return self.binop(rv["o"], a, b, width_of(rv.get("ty", "")), stmt)
        if k == "un":
            a = self.operand(body, env, rv["a"])
            if rv["o"] == "Not" and a is not None:
                return [(1 - x) if x in (0, 1) else T for x in a]
            return None
        return None

    def binop(self, o, a, b, w, stmt):
        if a is None or b is None or isinstance(a, tuple) or isinstance(b, tuple):
            if o in ("Eq", "Ne", "Lt", "Le", "Gt", "Ge"):
                return [T]
            return [T] * w if w else None
        if o.endswith("WithOverflow"):
            v = self.binop(o.replace("WithOverflow", ""), a, b, w, stmt)
            return ("tuple", [v, [0]])
        if o == "BitAnd":
            return [b_and(x, y) for x, y in zip(a, b)]
        if o == "BitOr":
            out = [b_or(x, y) for x, y in zip(a, b)]
            for i, (x, y, z) in enumerate(zip(a, b, out)):
                if z == T and x not in (0, 1, T) and y not in (0, 1, T):
                    self.notes.append("OR of two live bits at bit %d (L%s): fields overlap" % (i, stmt.get("line")))
            return out
        if o == "BitXor":
            return [x if y == 0 else (y if x == 0 else T) for x, y in zip(a, b)]
        if o in ("Shl", "Shr", "ShlUnchecked", "ShrUnchecked"):
            if not is_const(b):
                return [T] * len(a)
            n = to_int(b)
            if o.startswith("Shl"):
                return ([0] * n + a)[:len(a)]
            return (a[n:] + [0] * n)[:len(a)]
        if o in ("Eq", "Ne"):
            if is_const(a) and is_const(b):
                r = 1 if to_int(a) == to_int(b) else 0
                return [r if o == "Eq" else 1 - r]
            # x != 0 where x has exactly one live bit: the result IS that bit
            zero, other = (a, b) if is_const(a) and to_int(a) == 0 else ((b, a) if is_const(b) and to_int(b) == 0 else (None, None))
            if zero is not None:
                live = [x for x in other if x != 0]
                if len(live) == 1 and live[0] not in (1, T):
                    return [live[0]] if o == "Ne" else [("not", live[0])]
            return [("eq" if o == "Eq" else "ne", tuple(a), tuple(b))]
        if o in ("Lt", "Le", "Gt", "Ge"):
            if is_const(a) and is_const(b):
                x, y = to_int(a), to_int(b)
                return [int({"Lt": x < y, "Le": x <= y, "Gt": x > y, "Ge": x >= y}[o])]
            return [T]
        if o in ("Add", "Sub", "Mul", "AddUnchecked", "SubUnchecked"):
            if is_const(a) and is_const(b):
                x, y = to_int(a), to_int(b)
                v = {"Add": x + y, "Sub": x - y, "Mul": x * y}[o.replace("Unchecked", "")]
                return const_bv(v % (1 << len(a)), len(a))
            return [T] * len(a)
        if o in ("Rem", "Div"):
            return [T] * len(a)
        return [T] * (w or len(a))

    def call(self, body, env, t, depth):
        c = body.callee(t) or ""
        d = body.callee_decl(t) or ""
        dest = t["dest"]
        w = width_of(body.local_ty(dest["l"]))
        args = [self.operand(body, env, a) for a in t["args"]]
        if c in IDENTITY128 or d in IDENTITY128:
            self.assign(body, env, dest, args[0])
            return
        if c in self.prog.bodies and c.startswith("sierradb::id::") and depth < 4:
            res = self.run(c, args, depth + 1)
            if len(res) == 1:
                self.assign(body, env, dest, res[0][1])
                return
        # opaque: a fresh input of the destination's width
        self.fresh += 1
        name = "%s@L%s" % (d.rsplit("::", 1)[-1].split("<")[0] or "call", t.get("line"))
        self.assign(body, env, dest, inputs(name, w) if w else None)
