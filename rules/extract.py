"""Fact extraction: run the rustc_private driver over /repo's *current working tree*.

Facts are cached under /verif/.cache/facts/<hash of the repo sources>/ so that the 25
per-property checks share one compiler run. The hash covers every tracked or untracked
source file that can influence the build, so an edited tree is always re-analysed.
"""
import fcntl
import hashlib
import os
import shutil
import subprocess
import sys
import time

VERIF = os.path.dirname(os.path.dirname(os.path.abspath(__file__)))
REPO = os.environ.get("SV_REPO", "/repo")
CACHE = os.path.join(VERIF, ".cache")
DRIVER_DIR = os.path.join(VERIF, "driver")
DRIVER = os.path.join(DRIVER_DIR, "target", "debug", "sv-driver")

EXPECTED = [
    "seglog-lib", "sierradb-lib", "sierradb_protocol-lib", "sierradb_topology-lib",
    "sierradb_cluster-lib", "sierradb_server-lib", "sierradb_client-lib", "sierradb-bin",
]
MEMBERS = ["seglog", "sierradb", "sierradb-protocol", "sierradb-topology", "sierradb-cluster",
           "sierradb-server", "sierradb-client", "sierradb-tests", "tests"]


def _sysroot():
    return subprocess.check_output(["rustc", "+nightly", "--print", "sysroot"], text=True).strip()


def source_hash(repo=REPO):
    h = hashlib.sha256()
    files = []
    for root, dirs, names in os.walk(repo):
        dirs[:] = [d for d in dirs if d not in ("target", ".git", "node_modules")]
        for n in names:
            if n.endswith((".rs", ".toml", ".lock", ".md")):
                files.append(os.path.join(root, n))
    for f in sorted(files):
        h.update(os.path.relpath(f, repo).encode())
        h.update(b"\0")
        with open(f, "rb") as fh:
            h.update(fh.read())
        h.update(b"\0")
    # the driver itself is part of the key
    with open(os.path.join(DRIVER_DIR, "src", "main.rs"), "rb") as fh:
        h.update(fh.read())
    return h.hexdigest()[:20]


def build_driver(quiet=True):
    env = dict(os.environ, CARGO_NET_OFFLINE="true")
    r = subprocess.run(["cargo", "+nightly", "build", "--offline"], cwd=DRIVER_DIR, env=env,
                       stdout=subprocess.PIPE, stderr=subprocess.STDOUT, text=True)
    if r.returncode != 0:
        sys.stderr.write(r.stdout)
        raise SystemExit("sv: cannot build the fact extractor (nightly rustc_private API mismatch?)")
    return DRIVER


def _run_driver(repo, facts_dir, target_dir, extra_args=()):
    env = dict(os.environ)
    env.update({
        "CARGO_NET_OFFLINE": "true",
        "LD_LIBRARY_PATH": _sysroot() + "/lib",
        "RUSTFLAGS": "-Zmir-opt-level=0 -Awarnings",
        "RUSTC_WORKSPACE_WRAPPER": DRIVER,
        "SV_FACTS_DIR": facts_dir,
        "CARGO_TARGET_DIR": target_dir,
    })
    env.pop("RUSTC_WRAPPER", None)
    cmd = ["cargo", "+nightly", "check", "--offline", "--workspace", "--exclude", "sierradb-fuzz"] + list(extra_args)
    r = subprocess.run(cmd, cwd=repo, env=env, stdout=subprocess.PIPE, stderr=subprocess.STDOUT, text=True)
    return r


def _clear_member_fingerprints(target_dir):
    fp = os.path.join(target_dir, "debug", ".fingerprint")
    if not os.path.isdir(fp):
        return
    for d in os.listdir(fp):
        base = d.rsplit("-", 1)[0]
        if base in MEMBERS:
            shutil.rmtree(os.path.join(fp, d), ignore_errors=True)


def _stolen(d):
    import json
    out = []
    for e in EXPECTED:
        try:
            with open(os.path.join(d, e + ".json")) as fh:
                out += json.load(fh).get("stolen", [])
        except Exception:
            pass
    return out


def facts_dir(repo=REPO, verbose=False):
    """Return the directory with fact files for the current tree, extracting if needed."""
    os.makedirs(os.path.join(CACHE, "facts"), exist_ok=True)
    # one extraction at a time per cargo target directory (self-test workers use their own target directories and run in parallel)
    tname = os.path.basename((os.environ.get("SV_TARGET_DIR") or os.path.join(CACHE, "target")).rstrip("/"))
    lock = open(os.path.join(CACHE, "lock-" + tname), "w")
    fcntl.flock(lock, fcntl.LOCK_EX)
    try:
        if not os.path.exists(DRIVER) or os.path.getmtime(DRIVER) < os.path.getmtime(os.path.join(DRIVER_DIR, "src", "main.rs")):
            build_driver()
        key = source_hash(repo)
        d = os.path.join(CACHE, "facts", key)
        ok = os.path.join(d, "OK")
        if os.path.exists(ok):
            return d
        shutil.rmtree(d, ignore_errors=True)
        os.makedirs(d)
        target = os.environ.get("SV_TARGET_DIR") or os.path.join(CACHE, "target")
        _clear_member_fingerprints(target)
        t0 = time.time()
        r = _run_driver(repo, d, target)
        if r.returncode != 0:
            sys.stderr.write(r.stdout[-6000:])
            shutil.rmtree(d, ignore_errors=True)
            raise SystemExit("sv: /repo does not compile under `cargo +nightly check` - nothing can be decided")
        missing = [e for e in EXPECTED if not os.path.exists(os.path.join(d, e + ".json"))]
        if missing:
            # cargo freshness skipped the wrapper for some member: force everything once
            _clear_member_fingerprints(target)
            r = _run_driver(repo, d, target)
            missing = [e for e in EXPECTED if not os.path.exists(os.path.join(d, e + ".json"))]
        if missing:
            shutil.rmtree(d, ignore_errors=True)
            raise SystemExit("sv: fact files missing after extraction: %s" % missing)
        # In a cold target directory the compiler computes the hidden types of `impl Trait` / async fns by borrow-checking them, which
        # consumes ("steals") the mir_built of those functions before the driver could copy it; with the incremental cache of a first
        # run the hidden types are loaded instead. So: if any body was lost, run the members once more on the now warm directory.
        if _stolen(d):
            _clear_member_fingerprints(target)
            r = _run_driver(repo, d, target)
            if verbose:
                sys.stderr.write("sv: second extraction pass (bodies were consumed by the compiler in the cold pass); still lost: %s\n" % _stolen(d)[:3])
        with open(ok, "w") as fh:
            fh.write("%.1f\n" % (time.time() - t0))
        # keep the cache small: drop all but the 16 newest fact dirs (several self-test workers may be reading theirs)
        root = os.path.join(CACHE, "facts")
        ds = sorted((os.path.join(root, x) for x in os.listdir(root)), key=os.path.getmtime)
        for old in ds[:-16]:
            if time.time() - os.path.getmtime(old) > 1800:
                shutil.rmtree(old, ignore_errors=True)
        if verbose:
            sys.stderr.write("sv: extracted facts in %.1fs -> %s\n" % (time.time() - t0, d))
        return d
    finally:
        fcntl.flock(lock, fcntl.LOCK_UN)
        lock.close()
