"""Findings, known findings, evidence files and exit codes."""
import json
import os
import sys
import time

VERIF = os.path.dirname(os.path.dirname(os.path.abspath(__file__)))


class Finding:
    def __init__(self, rule, function, instance, message, file=None, line=None, detail=None):
        self.rule = rule
        self.function = function
        self.instance = instance
        self.message = message
        self.file = file
        self.line = line
        self.detail = detail or {}

    @property
    def key(self):
        return "%s|%s|%s" % (self.rule, self.function, self.instance)

    def to_json(self):
        return {"rule": self.rule, "function": self.function, "instance": self.instance,
                "key": self.key, "message": self.message, "file": self.file, "line": self.line,
                "detail": self.detail}


class Check:
    """Collects obligations for one property run."""

    def __init__(self, pid, tier):
        self.pid = pid
        self.tier = tier
        self.t0 = time.time()
        self.findings = []
        self.obligations = []   # (rule, instance description, discharged bool, where)
        self.rules = {}         # rule id -> text
        self.analysed_functions = set()
        self.assumptions = []
        self.notes = []
        self.inconclusive = []
        self.floors = {}        # rule -> (count, floor)
        self.not_decided = []

    def rule(self, rid, text):
        self.rules[rid] = text

    def analysed(self, *paths):
        for p in paths:
            self.analysed_functions.add(p)

    def ok(self, rule, instance, where=""):
        self.obligations.append((rule, instance, True, where))

    def fail(self, rule, function, instance, message, body=None, line=None, detail=None):
        f = Finding(rule, function, instance, message,
                    file=body.file if body is not None else None,
                    line=line if line is not None else (body.lo if body is not None else None),
                    detail=detail)
        self.findings.append(f)
        self.obligations.append((rule, "%s: %s" % (function, instance), False,
                                 "%s:%s" % (f.file, f.line)))
        return f

    def floor(self, rule, count, floor):
        self.floors[rule] = (count, floor)
        if count < floor:
            self.inconclusive.append("rule %s matched %d instances, floor is %d (confirmed by reading)" % (rule, count, floor))

    def inconc(self, msg):
        self.inconclusive.append(msg)

    def assume(self, text):
        self.assumptions.append(text)


def load_known():
    p = os.path.join(VERIF, "known_findings.json")
    if not os.path.exists(p):
        return []
    with open(p) as fh:
        return json.load(fh)["findings"]


def finish(chk, level="other", extra_cov=None, checker_cmd=None, trusted_base=None):
    """write evidence, print report lines, return exit code"""
    known = {(k["property"], k["key"]): k for k in load_known() if k.get("status") == "known"}
    new, old = [], []
    for f in chk.findings:
        if (chk.pid, f.key) in known:
            old.append(f)
        else:
            new.append(f)
    evdir = os.environ.get("SV_EVIDENCE_DIR") or os.path.join(VERIF, "evidence")
    os.makedirs(evdir, exist_ok=True)
    n_ob = len(chk.obligations)
    n_ok = sum(1 for o in chk.obligations if o[2])
    samples = []
    for o in chk.obligations[:12]:
        samples.append({"rule": o[0], "instance": o[1], "discharged": o[2], "where": o[3]})
    # make sure failing obligations are visible among the samples
    for o in chk.obligations:
        if not o[2] and len(samples) < 40:
            samples.append({"rule": o[0], "instance": o[1], "discharged": o[2], "where": o[3]})
    cov = {
        "explanation": "static analysis of /repo's current working tree (mir_built CFGs and HIR from a rustc_private driver); "
                       "each obligation is one rule instance (call site, store, gate, path) decided for all paths of the named function",
        "obligations": n_ob,
        "discharged": n_ok,
        "evaluations": max(n_ob, 1),
        "distinct_nontrivial": len({(o[0], o[1]) for o in chk.obligations}),
        "rule": "obligations are enumerated from the resolved program by the rules listed under 'rules'; each is distinct by (rule, function, instance)",
        "rules": chk.rules,
        "functions_analysed": sorted(chk.analysed_functions),
        "n_functions_analysed": len(chk.analysed_functions),
        "floors": {k: {"count": v[0], "floor": v[1]} for k, v in chk.floors.items()},
        "samples": samples or [{"note": "no obligations"}],
        "known_findings_reported": [f.to_json() for f in old],
        "new_violations": [f.to_json() for f in new],
        "inconclusive": chk.inconclusive,
        "not_decided": chk.not_decided,
        "notes": chk.notes,
        "exhaustive": False,
    }
    if checker_cmd:
        cov["checker_cmd"] = checker_cmd
    if trusted_base is not None:
        cov["trusted_base"] = trusted_base
    if extra_cov:
        cov.update(extra_cov)
    ev = {
        "property_id": chk.pid,
        "tier": chk.tier,
        "seed": int(os.environ.get("VERIF_SEED", "0") or 0),
        "level": level,
        "coverage": cov,
        "assumptions": chk.assumptions,
        "wall_s": round(time.time() - chk.t0, 3),
        "violations": len(new),
    }
    with open(os.path.join(evdir, chk.pid + ".json"), "w") as fh:
        json.dump(ev, fh, indent=1)
    for f in old:
        print("KNOWN-FINDING: property=%s %s [%s] %s:%s %s" % (chk.pid, f.key, f.rule, f.file, f.line, f.message))
    code = 0
    if new:
        os.makedirs(os.path.join(VERIF, ".cache", "replay"), exist_ok=True)
        rp = os.path.join(VERIF, ".cache", "replay", "%s.json" % chk.pid)
        with open(rp, "w") as fh:
            json.dump({"property": chk.pid, "violations": [f.to_json() for f in new]}, fh, indent=1)
        for f in new:
            print("  violation: [%s] %s:%s in %s: %s (key=%s)" % (f.rule, f.file, f.line, f.function, f.message, f.key))
        print("VIOLATION property=%s replay=%s" % (chk.pid, rp))
        code = 1
    elif chk.inconclusive:
        for m in chk.inconclusive:
            print("INCONCLUSIVE property=%s %s" % (chk.pid, m))
        code = 2
    print("%s: %d obligations, %d discharged, %d known findings, %d new violations, %d functions, %.2fs"
          % (chk.pid, n_ob, n_ok, len(old), len(new), len(chk.analysed_functions), time.time() - chk.t0))
    return code
