"""Registry of claimed properties (feeds tools/gen_manifest.py)."""

TB = ("Trusted base: rustc nightly front end (mir_built, type check, name resolution), the fact extractor in driver/, "
      "the rule engine in rules/; the rules decide the structural clauses listed in DESIGN.md section 5, not the full behaviour.")

SOURCE_COMMITS = ['b20be45', 'd6b97d4', '81db7b7', 'f1537dd', '92faf13', 'beb95e5', 'd658ae3', 'a07c629', '89dcbf8', '7f0e85c', '375c365', '37b3ce9', 'a940e0f', 'e64f4f9']  # fix: commits in /repo (no hook commits exist)

NOTES = ("All checks are static: `./sv check <id>` re-extracts facts from /repo's current working tree with a rustc_private driver "
         "(cached by a hash of the sources) and decides rule instances over MIR/HIR. Exit 0 = held, 1 = VIOLATION, "
         "2 = INCONCLUSIVE (an anchor or floor is missing; fail closed). known_findings.json lists recorded defects.")

NOT_APPLICABLE = {}

NOTE = TB + " Unsafe code, FFI and the macOS-only cfg branches are not modelled. A shape the rules do not recognise is reported, never skipped."

CHECKS = {
    "C03": {
        "text": "Decides ONE clause of the property: a scan or lookup never returns an event of another stream / partition / id. For all paths: every batch returned by "
                "BucketIter::next_batch went through filter_commit; StreamIterConfig::filter_commit keeps an event only on the equal edge of event.stream_id == self.stream_id; "
                "each of the three sealed-segment index lookups that go through the MPHF returns Some only on the equal edge of a comparison of the key stored in the slot with "
                "the key asked for. Plus three structural necessary conditions of the other clauses: the scan cursor is read from the right end and field of the last commit, from "
                "a commit that passed the filter, and a reverse scan starts at the mirrored index with no start position special-cased. Exactness, order and gaplessness as "
                "such (offset-index arithmetic, block-cache boundaries, segment hand-over) are NOT decided: they are arithmetic over runtime layouts.",
        "note": NOTE + " This is a deliberately narrow claim; a seeded change in the iterator's segment hand-over (seeded/C15b) is not detected and is listed as such in DESIGN.md section 9.",
        "technique": "static analysis: gating (dominance of an equality edge over every Some return), value-flow of returned batches and of the scan cursor through the filter, closure-return shape, linear index forms",
    },
    "C01": {
        "text": "For all paths: append_events returns Ok only after wait_for(synced >= its write offset); the synced offset is published only by "
                "WriterSet::sync after a successful fsync and after the index entries were drained; FlushedOffset is set only after flush+sync_data; "
                "replacing the segment writer replaces the sync channel (rollover); seglog create/open/set_len keep write offset and file cursor together; "
                "a failed write is rolled back in the segment it was written to, and the truncation marker is written after the last flush. "
                "Decides the ack/fsync/publication structure, not byte equality of what is read.",
        "note": NOTE,
        "technique": "static analysis: MIR must-pass / dominance, who-may-call, field pairing (PAIR), ordering (no-path) rules",
    },
    "C02": {
        "text": "Decides for all paths: writer state (sequence cache, pending index entries, counters) changes only after a transaction's last fallible append; the expected partition "
                "sequence is validated against cache-then-index before the first append; the six latest-version lookups walk segments newest first, live before sealed; "
                "un-synced entries are searched by stream id alone and a partition-key mismatch is an error in all four arms. The decision table of the expectations "
                "against a reference model is not decided.",
        "note": NOTE,
        "technique": "static analysis: store-after-last-fallible-call ordering, dominance on `?` success edges, predicate shape of lookup closures, call ordering on MIR",
    },
    "C15": {
        "text": "Decides the window the property's anchor names, for all paths of rollover: the sealed segment's indexes are installed in the reader pool, the live indexes are "
                "swapped and the new live segment id is published while the live-index write guard is held (and in that order); readers run their lookup closure under one read "
                "guard; version queries walk the sealed segments newest first. Does not explore schedules.",
        "note": NOTE,
        "technique": "static analysis: guard-liveness region (lock acquisition to drop) on MIR, ordering of stores/calls inside the region",
    },
    "C16": {
        "text": "Decides the structure that makes per-bucket validation+write atomic: the WriterSet methods are only reachable from the worker, Worker::run only from the one spawned "
                "thread, handle_append_events is synchronous with validation dominating the write, routing has a single source, and the cache of next partition sequences "
                "(the only record of un-synced appends) is only written by insert after the last fallible append and never shrunk.",
        "note": NOTE,
        "technique": "static analysis: who-may-call / who-may-mutate over the resolved call graph, coroutine-freedom, dominance",
    },
    "C17": {
        "text": "Decides checksum coverage, not CRC arithmetic: every path to an Ok record in the three readers passes a successful comparison of the little-endian stored CRC with "
                "calculate_crc32c(len word, header, data) over the buffers the result is cut from; calculate_crc32c hashes its three raw arguments; append writes exactly the "
                "pieces it checksummed; flag/length masks partition the length word; record bytes are read only after a flushed-offset bound check.",
        "note": NOTE,
        "technique": "static analysis: must-pass of checksum-gate edges, argument provenance, writer/reader sibling agreement on MIR",
    },
    "C18": {
        "text": "Decides for all paths: the bytes the read-ahead buffer may serve are bounded by the flushed offset loaded by the read that filled it; replace_header_with invalidates "
                "a range starting no later than the bytes it rewrites and syncs before Ok; only Writer::sync/set_len move the flushed offset; the refill counter carries nothing over; read_bytes is bounded by the flushed offset with a "
                "comparison that is monotone in it. Does not explore interleavings.",
        "note": NOTE,
        "technique": "static analysis: value-dependence of the cache validity length, linear range comparison, who-may-call on MIR",
    },
    "C19": {
        "text": "Decides that the stored form of a record is never larger than the size the database reserved: the compressed form is returned only on the edge "
                "stored_buffer.len() < data.len() for the very buffer returned; and that the size test, rollover decision and space check use one estimate with all summands, compared with segment_size at exact boundaries "
                "(rollover with no slack, reject at the empty segment's start offset, the segment writer's SegmentFull test equal to the offset it advances to). "
                "Does not decide that the estimate equals the encoded size.",
        "note": NOTE,
        "technique": "static analysis: guarded-return dominance with buffer identity, shared-subterm check on MIR",
    },
    "C20": {
        "text": "Decides lost-wakeup freedom only: sync always publishes before Ok, successful writes end in sync_if_necessary, the poller visits every writer set and is spawned, every "
                "request is answered on every path, rollover syncs the old segment before replacing the channel (and does replace it), and only should_sync decides to skip a sync. No time bound is decided.",
        "note": NOTE + " Assumes a finite sync interval or reachable size thresholds (configuration).",
        "technique": "static analysis: must-pass / dominance rules over MIR",
    },
    "C24": {
        "text": "Decides range and purity for the whole input space by interval reasoning over the function's terms: no arithmetic overflow, no division by zero, no push beyond "
                "capacity; every element pushed is reduced modulo num_partitions, the first is partition_hash % num_partitions; no clock/RNG/hash-ordered container. "
                "Pairwise distinctness (coprimality of the jump) is number theory and is argued by hand, not decided.",
        "note": NOTE + " The interval domain tracks type ranges, zero-extending casts, constants, %, /, min/max and comparison-with-constant refinements only.",
        "technique": "static analysis: panic audit with interval abstraction over MIR terms, value-shape and purity rules",
    },
    "C25": {
        "text": "Decides panic-freedom of the version algebra on its domain (every overflow site discharged by an interval, a cmp-arm relational guard, or a reasoned allow-list "
                "entry), the inverse shapes of from_next_version / into_next_version, and that Display and FromStr use the same keyword table. The equality of is_satisfied_by "
                "with the store's validator is not decided.",
        "note": NOTE,
        "technique": "static analysis: panic audit with intervals and relational guards, shape rules, keyword-table sibling comparison",
    },
    "C26": {
        "text": "Decides panic-freedom of every breaker method (clock/atomic differences saturate, Duration subtraction is guarded) and the two races the property names as structure: "
                "no counter reset after a discarded compare_exchange or after the state is published; every admission that can happen in (or on entering) half-open passes a "
                "counted fetch_add compared `< max`; Open is only stored under failures >= threshold or from half-open. Does not enumerate interleavings.",
        "note": NOTE,
        "technique": "static analysis: panic audit, ordering of atomic stores, must-pass of the probe counter on MIR",
    },
    "C13": {
        "text": "Decides agreement of storage placement and routing as sibling normal forms: the bucket->primary kernels (today they differ: KNOWN-FINDING D12), the direction "
                "of the replica ring walk (node = primary + offset on both sides), the min(rf, N) bound, partition->bucket by `%` at every site, and that main derives the "
                "storage buckets and the cluster partitions from one assigned_buckets() value. Numerical agreement of two different kernels is not decided.",
        "note": NOTE,
        "technique": "static analysis: sibling normal forms of arithmetic kernels (linear/modular terms), value-flow in main",
    },
    "C14": {
        "text": "Decides: no narrowing cast of a count in the placement code, effective rf = min(rf as usize, N) in both topology functions, both walk (primary + offset) % N, and "
                "get_available_replicas sorts by a total order (alive_since, then replica). Does not enumerate membership-event orders.",
        "note": NOTE + " Assumes node count >= 1 and bucket count >= 1 (configuration validation).",
        "technique": "static analysis: cast audit with intervals, kernel shape comparison, comparator totality check on the sort closure",
    },
    "C23": {
        "category": "proof",
        "text": "Bit-provenance proof over the actual MIR of id.rs: the generated id carries the partition hash exactly at bits 46..61 with no overlapping field, "
                "uuid_to_partition_hash returns exactly those bits, set_uuid_flag changes bit 63 only (both flag values), get_uuid_flag reads bit 63, validate_event_id compares the "
                "extracted hash with its argument; hence hash(generate(h)) = h and the flag never disturbs the hash, for all 2^16 hashes and all 2^128 ids. Plus: every key->partition "
                "site is hash %% count, and Transaction::new requires every event id to validate.",
        "note": "Trusted base: rustc front end, driver/, the transfer functions of rules/bitprov.py (and/or/shift-by-constant, zero extension, constant folding) and the modelling of "
                "Uuid/[u8;16]/u128 conversions as big-endian identities. Random and time bits are opaque inputs.",
        "technique": "static analysis: abstract interpretation with per-bit provenance over MIR (all paths), sibling routing-kernel rule, quantifier-shape rule",
    },
    "C21": {
        "text": "For the combinator tree of all 13 command parsers (built from the HIR on every run, combine 4.6 commit semantics): no keyword that may follow an optional or repeated "
                "part is accepted by that part's value leaf (G1), no repetition/option/choice turns a following keyword into a committed error (G2), every documented example "
                "and every expansion of the documented syntax templates is accepted with keywords in keyword position (G3), every token sequence the Rust client can build "
                "(all CFG paths of its cmd().arg() chains and ToRedisArgs impls, integers at the boundaries of their client-side type, caller strings as wildcards) is accepted (G4), "
                "and the command and expected-version keyword tables agree across server, protocol and client (G5). The values carried in the parsed request are not decided.",
        "note": NOTE + " Leaf acceptance tables (which strings each parser.rs leaf accepts) are frozen and guarded by a structural fingerprint; client loops are explored with 1-2 iterations.",
        "technique": "static analysis: grammar extraction from HIR combinator trees, FIRST/FOLLOW keyword analysis with commit semantics, abstract parsing of documented and client-emitted forms (MIR path enumeration)",
    },
    "C22": {
        "text": "Decides only that a well-formed or malformed request cannot kill the connection task from inside the handlers, encoders, Command::{try_from,handle} and "
                "Conn::{run,handle_request}: every overflow / division / unwrap / index / explicit panic there is discharged by an interval, a guard or a frozen, reasoned "
                "allow-list entry; handler and parse errors are mapped to SimpleError replies and no io::Error is constructed in the request path; request values are not narrowed by wrapping casts; buffered pipelined requests are drained "
                "before the task waits again. The comparison with the "
                "reference event-store model (versions, has_more flags) is not decided.",
        "note": NOTE + " The allow-list (14 entries) is part of the trusted base; each entry names one (function, site, occurrence) with its reason and is printed in the evidence.",
        "technique": "static analysis: panic audit with intervals and a frozen allow-list, error-mapping shape rules on MIR",
    },
    "C04": {
        "text": "For all paths of both commit-matching readers: a Transaction is returned only under commit id == pending id and a non-empty list, a Single only "
                "under a set flag and an empty list, a change of the pending id resets the list, and the two sibling implementations have the same "
                "(action, path-condition) table; handle_write appends the commit after the events, iff the flag is clear, with no fsync in between, and is the "
                "only caller of append_event/append_commit; every batch returned by next_batch went through filter_commit.",
        "note": NOTE,
        "technique": "static analysis: path-condition tables over MIR (edge dominance), sibling comparison, who-may-call, value-flow",
    },
    "C05": {
        "text": "Decides necessary conditions of crash recovery for all paths: the recovery scan in seglog Writer::open advances the write offset on its "
                "success edge only and returns Err only for real I/O errors (a torn last record ends the scan); the truncation marker is written after the last "
                "flush and synced; every live index published by Worker::new was hydrated; and hydration must be commit-aware (this last rule reports the three "
                "hydrate functions as KNOWN-FINDING D5); the writer's fallback lookups see the newest segment first; the reopen scan and the writer pick the live "
                "segment by the same criterion. Does not enumerate crash points.",
        "note": NOTE,
        "technique": "static analysis: error-flow discipline, dominance on the scan's success edge, ordering (no flush after marker), value-flow of hydrate sources",
    },
    "C06": {
        "text": "Decides that the loader of sealed segments has (or lacks) a path that can rebuild an index from the segment file for each of the three index kinds "
                "(today it lacks it: KNOWN-FINDING D6 x3), and that Open*Index::close only replaces the in-memory map with the result of a successful flush_inner "
                "and writes the file through flush_inner only; index load errors are never discarded; the six index constructors open read+write; every stream key is also in the bloom "
                "filter; the file names the writer uses are the names the reopen scan recognises. Does not decide which file prefixes are detected as incomplete.",
        "note": NOTE,
        "technique": "static analysis: call-graph reachability (may-call) from the loader, dominance / value-flow in the background flush closure",
    },
    "C10": {
        "text": "Decides necessary conditions for all paths: only writes with an exact expected sequence are forwarded to the replicator, after the sender and staleness "
                "checks; the coordinator pins the replicated transaction to the sequence its own append got; catch-up re-applies events with exact stream versions "
                "from the replica's own next sequence; ConfirmTransaction compares length, sequences and event ids before stamping counts; two buffered writes are "
                "the same write only if their transaction ids are equal. Does not decide agreement under fault schedules.",
        "note": NOTE,
        "technique": "static analysis: variant-edge dominance (match arms), value-flow of the replicated transaction, predicate shape of key_eq on MIR",
    },
    "C11": {
        "text": "Decides for all paths: transaction::run returns Ok only under confirmed_replicas.len() >= rf/2+1, with replicas counted on their Ok arm only and the "
                "coordinator counted once; the client's Ok reply is dominated by the Ok arm of set_confirmations_with_retry, which itself returns Ok only on the Ok "
                "arm of Database::set_confirmations; the count written is confirmed_replicas.len(); the coordinator is counted only behind its own successful append and a replica's answer is the "
                "result of its own append. Does not decide 'never hidden by any later history'.",
        "note": NOTE,
        "technique": "static analysis: quorum gate dominance, variant-edge dominance across await points, value-flow on MIR",
    },
    "C12": {
        "text": "Decides for all paths: OrderedQueue::insert never mutates the map on a path that returns Err, rejects keys below next, pop removes exactly map[next]; "
                "a function moving `next` purges smaller keys (KNOWN-FINDING D11: progress_to does not); buffer_write keys by the assigned sequence and hands back "
                "the rejected write's own sender; every popped write flows into write_buffered, which answers all senders; the queue advances to last+1 on Ok only.",
        "note": NOTE,
        "technique": "static analysis: no-mutation-before-Err path rule, who-writes-field pairing, value-flow of popped writes and reply senders on MIR",
    },
    "C08": {
        "text": "Decides: the watermark is only written by a guarded compare_exchange in advance (monotone); advance is only called by update_confirmation "
                "(and caller-less admin overrides); stored confirmation counts only grow (max); the candidate watermark only advances under "
                "count >= rf/2+1 for the entry at that position; persistence renames temp->current only after write+sync, never removes current, loads "
                "current before previous; initialize replays from the loaded watermark with the on-disk counts before returning Ok. The order-independence "
                "argument follows from these by a pencil proof (in the evidence), which is not machine-checked.",
        "note": NOTE,
        "technique": "static analysis: who-may-write, guarded-store dominance, monotone-merge shape, call ordering on MIR",
    },
    "C09": {
        "text": "Decides for all paths: history delivery is gated by can_read and stops at the first unconfirmed commit; records are only built in send_record, "
                "behind wait_for(cursor - ack <= window) and followed by cursor += 1; the live loop filters with has_seen (`<` only) and advances the matcher "
                "by +1 with the delivered record's fields; the only senders on the broadcast channel are the watermark-gated confirmation-actor loops. "
                "Does not decide the history/live hand-over race.",
        "note": NOTE,
        "technique": "static analysis: GATED / gate-stop path rules, window predicate shape, who-may-construct, comparison polarity on MIR",
    },
    "C07": {
        "text": "For every path of the seven cluster read handlers, every site that hands an event (or a version/sequence derived from one) "
                "to a client is dominated by a comparison normalised to `partition_sequence <= watermark-1` (and, for event lookup, "
                "`confirmation_count >= rf/2+1`); every quorum value in the crate has the shape rf/2+1 with boundary `count >= quorum`; "
                "every function reading events from the database is a gated handler or allow-listed. Decides gate placement and "
                "off-by-one equivalence for all paths, not the runtime value of the watermark.",
        "note": TB + " Value classes are propagated through copies, casts, +/- constants, min, Option/iterator plumbing and captured "
                     "closures only; a gate written in an unrecognised shape is reported, not skipped.",
        "technique": "static analysis: MIR gate normalisation + edge dominance (GATE/GATED), quorum shape rule, who-may-read coverage",
    },
}
