"""Registry of claimed properties (feeds tools/gen_manifest.py)."""

TB = ("Trusted base: rustc nightly front end (mir_built, type check, name resolution), the fact extractor in driver/, "
      "the rule engine in rules/; the rules decide the structural clauses listed in DESIGN.md section 5, not the full behaviour.")

SOURCE_COMMITS = ['b20be45', 'd6b97d4', '81db7b7', 'f1537dd', '92faf13', 'beb95e5', 'd658ae3', 'a07c629', '89dcbf8', '7f0e85c', '375c365', '37b3ce9', 'a940e0f', 'e64f4f9']  # fix: commits in /repo (no hook commits exist)

NOTES = ("All checks are static: `./sv check <id>` re-extracts facts from /repo's current working tree with a rustc_private driver "
         "(cached by a hash of the sources) and decides rule instances over MIR/HIR. Exit 0 = held, 1 = VIOLATION, "
         "2 = INCONCLUSIVE (an anchor or floor is missing; fail closed). known_findings.json lists recorded defects.")

NOT_APPLICABLE = {
    "C03": "scan exactness/ordering/gaplessness is arithmetic over runtime index layouts (offset tables, MPHF lookups, block-cache "
           "boundaries); no clause is visible in the shape of the code except the stream filter, which is decided under C04 (R4.5). "
           "A structural proxy would fire on harmless edits or decide nothing (DESIGN.md section 7).",
}

CHECKS = {
    "C07": {
        "text": "For every path of the seven cluster read handlers, every site that hands an event (or a version/sequence derived from one) "
                "to a client is dominated by a comparison normalised to `partition_sequence <= watermark-1` (and, for event lookup, "
                "`confirmation_count >= rf/2+1`); every quorum value in the crate has the shape rf/2+1 with boundary `count >= quorum`; "
                "every function reading events from the database is a gated handler or allow-listed. Decides gate placement and "
                "off-by-one equivalence for all paths, not the runtime value of the watermark.",
        "note": TB + " Value classes are propagated through copies, casts, +/- constants, min, Option/iterator plumbing and captured "
                     "closures only; a gate written in an unrecognised shape is reported, not skipped.",
        "technique": "static analysis: MIR gate normalisation + edge dominance (GATE/GATED), quorum shape rule, who-may-read coverage",
    },
}
