"""GATE / GATED primitives (DESIGN 4.5): normalise comparisons between two value classes
and decide which branch of each comparison accepts.

A comparison is normalised to   X  <=  Y + m   (on its accept side), where X is a member of
class X (e.g. an event's partition sequence), Y a member of class Y (e.g. the confirmed
watermark, possibly wrapped in min(e, Y)), and m an integer constant. The canonical
watermark gate `X < Y` is m == -1.
"""
from .flow import Ev, walk, resolve_upvars, closure_creation, show, strip

CMP = {"Lt", "Le", "Gt", "Ge", "Eq", "Ne"}
NEG = {"Lt": "Ge", "Le": "Gt", "Gt": "Le", "Ge": "Lt", "Eq": "Ne", "Ne": "Eq"}
SWAP = {"Lt": "Gt", "Le": "Ge", "Gt": "Lt", "Ge": "Le", "Eq": "Eq", "Ne": "Ne"}

TRANSPARENT_CALLS = (
    "std::option::Option::<T>::unwrap_or", "std::option::Option::<T>::map", "std::clone::Clone::clone",
    "std::option::Option::<T>::cloned", "std::option::Option::<T>::copied", "std::ops::Deref::deref",
    "std::option::Option::<T>::unwrap_or_default", "std::convert::Into::into", "std::convert::From::from",
)


def callee_is(path, *names):
    return any(path == n or path.endswith("::" + n) or n in path for n in names)


class Classifier:
    """Decides membership of value classes by deep inspection of terms, descending into
    closures passed as arguments and resolving upvars into the creating body."""

    def __init__(self, prog, is_x_leaf, is_y_leaf):
        self.prog = prog
        self.is_x_leaf = is_x_leaf
        self.is_y_leaf = is_y_leaf
        self._closure_ret = {}

    def closure_return(self, path):
        if path not in self._closure_ret:
            self._closure_ret[path] = ("unknown", "rec")
            b = self.prog.bodies.get(path)
            if b is None:
                return ("unknown", "noclosure")
            ev = Ev(self.prog, b)
            rets = b.return_blocks()
            alts = []
            for r in rets:
                alts.append(ev.place({"l": 0, "p": []}, (r, "T")))
            t = alts[0] if len(alts) == 1 else ("phi", tuple(alts))
            self._closure_ret[path] = resolve_upvars(self.prog, t, b)
        return self._closure_ret[path]

    def deep(self, term, pred, depth=0):
        if depth > 6:
            return False
        for t in walk(term):
            if pred(t):
                return True
            if isinstance(t, tuple) and t and t[0] == "agg" and t[1].split(":", 1)[0] in ("closure", "coroutine"):
                cp = t[1].split(":", 1)[1]
                if self.deep(self.closure_return(cp), pred, depth + 1):
                    return True
        return False

    def has_y(self, term):
        return derive(self, term, self.is_y_leaf) is not None

    def has_x(self, term):
        return derive(self, term, self.is_x_leaf) is not None


PASS0 = ("Clone::clone", "Option::<T>::cloned", "Option::<T>::copied", "Deref::deref", "Option::<T>::unwrap",
         "Option::<T>::expect", "Iterator::next", "IntoIterator::into_iter", "Iterator::collect", "::iter", "::into_iter",
         "Option::<T>::as_ref", "Option::<T>::as_deref", "Iterator::rev", "Iterator::copied", "Iterator::cloned",
         "std::convert::Into::into", "std::convert::From::from", "Option::<T>::unwrap_or_default", "<[T]>::last", "<[T]>::first",
         "::last", "::first", "Arc::<T>::new", "Option::<T>::ok_or", "Try>::branch", "Result::<T, E>::ok")
PASS_CLOSURE = ("Option::<T>::map", "Option::<T>::and_then", "Iterator::map", "Iterator::filter_map", "Iterator::find_map",
                "Iterator::flat_map")

def linear(term):
    """split term into (base term, constant offset); handles +/- const incl. checked forms"""
    off = 0
    while True:
        t = strip(term)
        if t[0] == "field" and t[2] == "0" and t[1][0] == "bin" and t[1][1] in ("AddWithOverflow", "SubWithOverflow"):
            t = ("bin", t[1][1].replace("WithOverflow", ""), t[1][2], t[1][3])
        if t[0] == "bin" and t[1] in ("Add", "Sub", "AddUnchecked", "SubUnchecked"):
            a, b = strip(t[2]), strip(t[3])
            sign = 1 if t[1].startswith("Add") else -1
            if b[0] == "const" and b[2] is not None:
                off += sign * b[2]
                term = a
                continue
            if a[0] == "const" and a[2] is not None and sign == 1:
                off += a[2]
                term = b
                continue
        if t[0] == "call" and any(t[1].endswith(s) for s in ("::saturating_sub", "::wrapping_sub")) and len(t[2]) == 2:
            b = strip(t[2][1])
            if b[0] == "const" and b[2] is not None:
                off -= b[2]
                term = t[2][0]
                continue
        if t[0] == "call" and any(t[1].endswith(s) for s in ("::saturating_add", "::wrapping_add")) and len(t[2]) == 2:
            b = strip(t[2][1])
            if b[0] == "const" and b[2] is not None:
                off += b[2]
                term = t[2][0]
                continue
        return t, off


def derive(cls, term, leaf, depth=0):
    """If `term` is derived from a `leaf` value through value-preserving steps (copies, casts,
    +/- constants, min with something else, Option/iterator plumbing, closures mapped over it),
    return the largest constant k such that term <= leaf + k; otherwise None.
    Arbitrary calls are NOT traversed: a value passed *into* a function does not make the
    function's result a member of the class."""
    if depth > 14:
        return None
    base, off = linear(term)
    k = base[0]
    if leaf(base):
        return off
    if k == "phi":
        ks = []
        for a in base[1]:
            r = derive(cls, a, leaf, depth + 1)
            if r is None:
                # alternatives that are plain constants 0 (defaults) are below any leaf value
                sa = strip(a)
                if sa[0] == "const" and sa[2] == 0:
                    continue
                if sa[0] == "cycle" or linear(a)[0][0] == "cycle":
                    continue  # the loop-carried value itself: bounded by the other alternatives plus its own step
                return None
            ks.append(r)
        return (max(ks) + off) if ks else None
    if k == "call":
        name = base[1]
        args = base[2]
        if name.endswith("::min") or name == "std::cmp::min":
            best = None
            for a in args:
                r = derive(cls, a, leaf, depth + 1)
                if r is not None:
                    best = r if best is None else min(best, r)
            return None if best is None else best + off
        if name.endswith("Option::<T>::unwrap_or"):
            d = strip(args[1])
            r = derive(cls, args[0], leaf, depth + 1)
            if r is not None and d[0] == "const" and d[2] == 0:
                return r + off
            return None
        if any(name.endswith(x) for x in PASS_CLOSURE):
            f = strip(args[1]) if len(args) > 1 else ("unknown",)
            if f[0] == "agg" and f[1].startswith("closure:"):
                r = derive(cls, cls.closure_return(f[1].split(":", 1)[1]), leaf, depth + 1)
                return None if r is None else r + off
            return None
        if any(name.endswith(x) for x in PASS0) or "as std::clone::Clone>::clone" in name or "as std::ops::Deref>::deref" in name \
                or "as std::iter::IntoIterator>::into_iter" in name or "as std::iter::Iterator>::next" in name:
            if not args:
                return None
            r = derive(cls, args[0], leaf, depth + 1)
            return None if r is None else r + off
        # a workspace helper whose own return value is derived from a leaf (e.g. `fn local_watermark(&self, p) -> u64
        # { self.watermarks.get(&p).map(|w| w.get()).unwrap_or(0) }`): the callee's return expression is inspected, its
        # parameters are opaque, so a value passed INTO the helper still does not make the result a class member
        if name in cls.prog.bodies and depth < 8:
            cb = cls.prog.bodies[name]
            if not cb.is_coroutine and len(cb.blocks) <= 60:
                r = derive(cls, cls.closure_return(name), leaf, depth + 3)
                return None if r is None else r + off
        return None
    if k in ("variant", "field", "index", "partial"):
        r = derive(cls, base[1], leaf, depth + 1)
        return None if r is None else r + off
    if k == "agg":
        best = None
        for a in base[2]:
            r = derive(cls, a, leaf, depth + 1)
            if r is not None:
                best = r if best is None else max(best, r)
        return None if best is None else best + off
    return None


def y_offset(cls, term, depth=0):
    return derive(cls, term, cls.is_y_leaf, depth)


class Gate:
    def __init__(self, body, block, op, x_term, y_term, x_off, y_k, line, true_is_x_le_y_plus=None):
        self.body = body
        self.block = block
        self.op = op          # comparison as written with X on the left: X op Y
        self.x_term = x_term
        self.y_term = y_term
        self.x_off = x_off
        self.y_k = y_k        # None if the Y side was not recognised
        self.line = line

    def bound_on(self, truth):
        """on the edge where the comparison evaluates to `truth`, return m such that
        X <= Y + m holds, or None if that edge gives no upper bound on X."""
        if self.y_k is None:
            return None
        op = self.op if truth else NEG[self.op]
        # X + x_off  op  Yterm,  Yterm <= Y + y_k
        if op == "Lt":
            return self.y_k - self.x_off - 1
        if op in ("Le", "Eq"):
            return self.y_k - self.x_off
        return None

    def describe(self):
        return "%s %s %s" % (show(self.x_term), self.op, show(self.y_term))


CALL_CMP = {"lt": "Lt", "le": "Le", "gt": "Gt", "ge": "Ge", "eq": "Eq", "ne": "Ne"}


def comparisons(prog, body, ev=None):
    """Every comparison in `body`, in both MIR forms: `BinaryOp(Lt, a, b)` and the call form
    `PartialOrd::lt(&a, &b)` / `PartialEq::eq`. Yields dicts:
      op, a, b (terms, upvars resolved), block, stmt ('T' for calls), lhs (place of the bool),
      sw_block (block whose terminator may switch on the bool), line"""
    ev = ev or Ev(prog, body)
    for bi, si, s in body.assigns():
        rv = s["rv"]
        if rv["k"] != "bin" or rv["o"] not in CMP:
            continue
        a = resolve_upvars(prog, ev.operand(rv["a"], (bi, si)), body)
        b = resolve_upvars(prog, ev.operand(rv["b"], (bi, si)), body)
        yield {"op": rv["o"], "a": a, "b": b, "block": bi, "stmt": si, "lhs": s["lhs"], "sw_block": bi, "line": s["line"], "exp": s.get("exp", "")}
    for bi, t in body.calls():
        decl = body.callee_decl(t) or ""
        last = decl.rsplit("::", 1)[-1]
        if last in CALL_CMP and ("PartialOrd" in decl or "PartialEq" in decl) and len(t["args"]) == 2 and t.get("target") is not None:
            a = resolve_upvars(prog, ev.operand(t["args"][0], (bi, "T")), body)
            b = resolve_upvars(prog, ev.operand(t["args"][1], (bi, "T")), body)
            yield {"op": CALL_CMP[last], "a": a, "b": b, "block": bi, "stmt": "T", "lhs": t["dest"], "sw_block": t["target"], "line": t["line"], "exp": t.get("exp", "")}


def find_gates(prog, body, cls, ev=None):
    """All comparisons in `body` between an X-class and a Y-class value."""
    out = []
    for c in comparisons(prog, body, ev):
        if "debug_assert" in c["exp"]:
            continue  # compiled out of release builds: never a gate
        a, b = c["a"], c["b"]
        ax, ay, bx, by = cls.has_x(a), cls.has_y(a), cls.has_x(b), cls.has_y(b)
        if ax and by and not ay:
            xt, yt, op = a, b, c["op"]
        elif bx and ay and not by:
            xt, yt, op = b, a, SWAP[c["op"]]
        else:
            continue
        xb, xo = linear(xt)
        g = Gate(body, c["sw_block"], op, xt, yt, xo, y_offset(cls, yt), c["line"])
        g.stmt = c["stmt"]
        g.lhs = c["lhs"]
        out.append(g)
    return out


def switch_on(body, block, lhs_local):
    """if `block` ends in a switch on the bool local (directly or via copies / Not), return
    (true_succ, false_succ)"""
    t = body.term(block)
    if t["k"] != "switch":
        return None
    from .facts import op_place
    p = op_place(t["op"])
    if p is None or p["p"]:
        return None
    # follow copies inside the block
    l = p["l"]
    neg = False
    seen = 0
    while l != lhs_local and seen < 8:
        seen += 1
        found = False
        for s in reversed(body.stmts(block)):
            if s["k"] == "assign" and s["lhs"]["l"] == l and not s["lhs"]["p"]:
                rv = s["rv"]
                if rv["k"] == "use" and op_place(rv["op"]) and not op_place(rv["op"])["p"]:
                    l = op_place(rv["op"])["l"]
                    found = True
                elif rv["k"] == "un" and rv["o"] == "Not" and op_place(rv["a"]) and not op_place(rv["a"])["p"]:
                    l = op_place(rv["a"])["l"]
                    neg = not neg
                    found = True
                break
        if not found:
            return None
    if l != lhs_local:
        return None
    zero = None
    for v, tgt in t["targets"]:
        if v == "0":
            zero = tgt
    if zero is None:
        return None
    other = t["otherwise"]
    tr, fa = other, zero
    if neg:
        tr, fa = fa, tr
    return tr, fa


def implied_true_edges(body, block, lhs_local):
    """CFG edges whose traversal implies that the bool `lhs_local` (computed in `block`) was true: the direct switch on it, plus
    the true edge of every switch on a bool local L all of whose definitions are `false` or a copy of `lhs_local`
    (the `let ok = a && b; if ok { .. }` shape). Only true edges are returned: L == false says nothing about lhs_local."""
    from .facts import op_place
    out = []
    sw = switch_on(body, block, lhs_local)
    if sw:
        out.append((block, sw[0]))
    # the comparison itself may be assigned to the user's bool (`ok = a <= b` on one path, `ok = false` on the other)
    own = [d for d in body.defs.get(lhs_local, []) if not d[2]["p"]]
    if len(own) >= 2:
        others = [d for d in own if not (d[0] == block and d[3].get("k") == "bin")]
        if len(others) == len(own) - 1 and all(d[3].get("k") == "use" and "c" in d[3]["op"] and "false" in str(d[3]["op"].get("c")) for d in others):
            for sb, blk in enumerate(body.blocks):
                if sb != block and blk["t"]["k"] == "switch":
                    s2 = switch_on(body, sb, lhs_local)
                    if s2:
                        out.append((sb, s2[0]))
    for L, defs in body.defs.items():
        ds = [d for d in defs if not d[2]["p"]]
        if len(ds) < 2 or L == lhs_local:
            continue
        ok, srcs = True, 0
        for (bi, si, lhs, rv) in ds:
            if rv.get("k") == "use":
                op = rv["op"]
                if "c" in op and "false" in str(op.get("c")):
                    continue
                p = op_place(op)
                if p is not None and not p["p"] and p["l"] == lhs_local:
                    srcs += 1
                    continue
            ok = False
            break
        if not ok or not srcs:
            continue
        for sb, blk in enumerate(body.blocks):
            if blk["t"]["k"] == "switch":
                s2 = switch_on(body, sb, L)
                if s2:
                    out.append((sb, s2[0]))
    return out


def edge_dominates(body, src, dst, target_block):
    """every path from entry to target_block uses the edge src->dst"""
    if target_block not in body.reach_from([0]):
        return False
    r = body.reach_from([0], avoid_edges=frozenset({(src, dst)}))
    return target_block not in r
