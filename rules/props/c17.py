"""C17 - segment-log records round-trip and corruption is always detected (R17.1-R17.4)."""
from ..facts import Program, Inconclusive, op_place
from ..flow import Ev, walk, resolve_upvars, show, strip
from ..gate import comparisons, switch_on, edge_dominates, SWAP
from ..util import calls, ok_return_blocks, must_pass
from . import c05

CRC = "seglog::calculate_crc32c"
READERS = ("seglog::read::Reader::<H>::read_record", "seglog::read::Reader::<H>::read_record_sequential", "seglog::parse::parse_record")
LEN_FROM = ("u32::from_le_bytes", "from_le_bytes")


def has_call(term, pred):
    return any(isinstance(x, tuple) and x and x[0] == "call" and pred(x[1]) for x in walk(term))


HELPER_GATES = {}


def crc_gates(prog, body, ev, _depth=0):
    """comparisons `stored crc != calculate_crc32c(..)`: returns list of (switch block, pass-successor, fail-successor, crc call term, line)"""
    out = []
    for c in comparisons(prog, body, ev):
        a, b, op = c["a"], c["b"], c["op"]
        ca = has_call(a, lambda n: n == CRC)
        cb = has_call(b, lambda n: n == CRC)
        if ca == cb or op not in ("Ne", "Eq"):
            continue
        stored, calc = (b, a) if ca else (a, b)
        sw = switch_on(body, c["sw_block"], c["lhs"]["l"])
        if not sw:
            continue
        tr, fa = sw
        ok_succ, bad_succ = (fa, tr) if op == "Ne" else (tr, fa)
        out.append((c["sw_block"], ok_succ, bad_succ, stored, calc, c["line"]))
    if _depth:
        return out
    # a checksum comparison extracted into a helper `verify(stored, len, header, data, ..) -> Result<(), ReadError>` called with `?`:
    # the Continue edge of that `?` is the gate, with the caller's arguments substituted for the helper's parameters
    from ..util import try_edges, ok_return_blocks as _okr
    for bi, t in body.calls():
        hp = body.callee(t) or body.callee_decl(t) or ""
        hb = prog.bodies.get(hp)
        if hb is None or hp == CRC or hb.path == body.path or not hp.startswith("seglog::"):
            continue
        hev = Ev(prog, hb)
        hg = crc_gates(prog, hb, hev, _depth=1)
        if len(hg) != 1:
            continue
        (hsb, hok, hbad, hstored, hcalc, hline) = hg[0]
        oks = [x for x, _ in _okr(hb)]
        if not oks or must_pass(hb, oks, [hok]):
            continue            # the helper can return Ok without passing its own comparison
        te = try_edges(body, bi)
        if te is None:
            continue
        def subst(term):
            tt = strip(term)
            if tt[0] == "param" and 1 <= tt[1] <= len(t["args"]):
                return ev.operand(t["args"][tt[1] - 1], (bi, "T"))
            if tt[0] == "call":
                return ("call", tt[1], tuple(subst(a) for a in tt[2])) + tuple(tt[3:])
            return term
        out.append((te[0], te[1], te[2], subst(hstored), subst(hcalc), t.get("line")))
        HELPER_GATES[(body.path, te[0])] = (hb, hsb, hbad)
    return out


def run(chk, facts_dir, tier):
    prog = Program(facts_dir, crates=["seglog-lib"])
    chk.rule("R17.1", "GATED: every path to an Ok return of read_record (optimistic / fallback / large), read_record_sequential and parse_record passes the "
                      "`stored crc == calculate_crc32c(length bytes, header, data)` edge of a checksum comparison whose header/data arguments are the slices returned "
                      "(or decompressed) and whose length argument is the word the length and compression flag were decoded from")
    chk.rule("R17.2", "WRITER/READER AGREEMENT: Writer::append checksums (length_with_flag bytes, header, final_data) and writes exactly those pieces (length, crc, header, data) "
                      "in that order; replace_header_with recomputes the checksum over the rebuilt length word, the new header and the on-disk data")
    chk.rule("R17.3", "CHECKSUM COVERAGE: calculate_crc32c feeds its three arguments, unmodified, to the hasher (the raw length word including the compression flag is covered)")
    chk.rule("R17.5", "MARKER WIDTH: every reader tests exactly the bytes the writer zeroes: the slice given to is_truncation_marker has the width of the zero array "
                      "Writer::set_len writes at the new end (the whole record head, length word and checksum); a narrower test takes a valid record with a zero length word "
                      "for the end of the log, a wider one reads past the marker")
    chk.rule("R17.4", "BOUNDS: every positional read of record bytes is dominated by a comparison of its end with the flushed offset loaded in the same call; "
                      "the truncation-marker test precedes length decoding")
    chk.not_decided += ["CRC arithmetic itself (crc32fast)", "byte-identical round trip of payloads (value equality)", "zstd"]

    # ---------------- R17.3
    cb = prog.body(CRC)
    chk.analysed(cb.path)
    cev = Ev(prog, cb)
    ups = calls(cb, "crc32fast::Hasher::update")
    params = []

    def _as_param(x):
        x = strip(x)
        while x[0] == "call" and x[1].rsplit("::", 1)[-1] in ("as_slice", "as_ref", "deref", "borrow") and len(x[2]) == 1:
            x = strip(x[2][0])          # a view of the same bytes
        return x[1] if x[0] == "param" else None

    for bi, t in ups:
        a = strip(cev.operand(t["args"][1], (bi, "T")))
        if _as_param(a) is not None:
            params.append(_as_param(a))
            continue
        # `for part in [len_bytes.as_slice(), header, data] { hasher.update(part) }`: the element of an iteration over an array of the arguments
        arr = [x for x in walk(a) if isinstance(x, tuple) and x and x[0] == "agg" and x[1] in ("array", "tuple")]
        it = any(isinstance(x, tuple) and x and x[0] == "call" and x[1].endswith("Iterator>::next") for x in walk(a))
        if it and len(arr) == 1 and all(_as_param(e) is not None for e in arr[0][2]):
            params += [_as_param(e) for e in arr[0][2]]
        else:
            params.append(None)
    if params == [1, 2, 3] or sorted(p for p in params if p) == [1, 2, 3] and len(params) == 3:
        chk.ok("R17.3", "hasher.update(len_bytes), update(header), update(data) on the raw arguments", cb.where())
    else:
        chk.fail("R17.3", CRC, "crc-coverage", "calculate_crc32c does not feed its three arguments unmodified to the hasher (%s): part of the record (e.g. the compression "
                 "flag in the length word) is no longer covered by the checksum" % [show(cev.operand(t["args"][1], (bi, "T")))[:40] for bi, t in ups], cb)
    fin = calls(cb, "crc32fast::Hasher::finalize")
    if not fin:
        chk.fail("R17.3", CRC, "crc-finalize", "calculate_crc32c does not return the hasher's value", cb)

    # ---------------- R17.1
    n_gates = 0
    for path in READERS:
        b = prog.body(path)
        chk.analysed(b.path)
        ev = Ev(prog, b)
        gates = crc_gates(prog, b, ev)
        n_gates += len(gates)
        oks = [x for x, s in ok_return_blocks(b)]
        # Ok returns that merely forward another reader's result are covered by that reader
        own_oks = []
        for ob, s in ok_return_blocks(b):
            own_oks.append(ob)
        good = set()
        for (sb, ok_succ, bad_succ, stored, calc, line) in gates:
            if len(b.pred[ok_succ]) == 1:
                good.add(ok_succ)
        missing = must_pass(b, own_oks, good) if own_oks else []
        if not own_oks:
            raise Inconclusive("%s: no Ok return" % path)
        if missing:
            chk.fail("R17.1", path, "ok-without-crc", "a record can be returned as Ok on a path that does not pass a successful checksum comparison (%d checksum gates in the function)" % len(gates), b,
                     next((x.get("line") for x in b.stmts(missing[0]) if x.get("line")), b.term(missing[0]).get("line")))
        else:
            chk.ok("R17.1", "%s: every Ok return passes a checksum gate (%d gates)" % (path.split("::")[-1], len(gates)), b.where())
        # the failing edge must produce Crc32cMismatch
        for (sb, ok_succ, bad_succ, stored, calc, line) in gates:
            eb, esb, ebad = (b, sb, bad_succ) if (b.path, sb) not in HELPER_GATES else HELPER_GATES[(b.path, sb)]
            bad_region = eb.reach_from([ebad], avoid=frozenset([esb]))
            errs = [i for i, j, s in eb.assigns() if i in bad_region and s["rv"]["k"] == "agg" and s["rv"]["ak"].endswith("ReadError::Crc32cMismatch")]
            if not errs:
                chk.fail("R17.1", path, "crc-fail-edge", "a failed checksum comparison does not lead to ReadError::Crc32cMismatch", b, line)
            # argument sanity: stored crc decoded little-endian from the record head; calc args
            call = [x for x in walk(calc) if isinstance(x, tuple) and x and x[0] == "call" and x[1] == CRC][0]
            a_len, a_hdr, a_data = call[2]
            prob = []
            if not has_call(stored, lambda n: n.endswith("from_le_bytes")):
                prob.append("stored checksum is not decoded with from_le_bytes")
            for nm, a in (("length", a_len), ("header", a_hdr), ("data", a_data)):
                sa = strip(a)
                if sa[0] == "const" or (sa[0] == "agg" and not sa[2]):
                    prob.append("%s argument is a constant" % nm)
            if show(strip(a_hdr)) == show(strip(a_data)):
                prob.append("header and data arguments are the same slice")
            if prob:
                chk.fail("R17.1", path, "crc-args", "checksum gate at L%d: %s" % (line, "; ".join(prob)), b, line)
            else:
                chk.ok("R17.1", "%s L%d: crc(len word, header, data) vs little-endian stored crc; mismatch -> Crc32cMismatch" % (path.split("::")[-1], line), b.where(line))
    chk.floor("R17.1", n_gates, 5)
    # returned data flows from the checksummed slice (or its decompression)
    _returned_is_checked(chk, prog)

    # ---------------- R17.2
    ab = prog.body("seglog::write::Writer::<H>::append")
    chk.analysed(ab.path)
    aev = Ev(prog, ab)
    cc = calls(ab, CRC)
    wr = calls(ab, "std::io::Write::write_all")
    if len(cc) != 1 or len(wr) != 4:
        chk.fail("R17.2", ab.path, "append-shape", "Writer::append no longer computes one checksum and writes four pieces (crc calls=%d, write_all calls=%d)" % (len(cc), len(wr)), ab)
    else:
        crc_args = [show(strip(aev.operand(a, (cc[0][0], "T")))) for a in cc[0][1]["args"]]
        written = [show(strip(aev.operand(t["args"][1], (bi, "T")))) for bi, t in wr]
        order_ok = all(ab.dominates(wr[i][0], wr[i + 1][0]) for i in range(3))
        # pieces: [length bytes, crc bytes, header, data]
        ok2 = order_ok and written[0] == crc_args[0] and written[2] == crc_args[1] and written[3] == crc_args[2] and "to_le_bytes" in written[1] and "calculate_crc32c" in written[1]
        if ok2 and "to_le_bytes" in crc_args[0]:
            chk.ok("R17.2", "append writes (len, crc(len,hdr,data), hdr, data) little-endian, in order", ab.where(cc[0][1]["line"]))
        else:
            chk.fail("R17.2", ab.path, "append-crc-pieces", "the pieces written (%s) are not the pieces checksummed (%s), in the order length, crc, header, data" % ([w[:40] for w in written], [c[:40] for c in crc_args]), ab, cc[0][1]["line"])
    # length/flag masks agree across readers and writer: every BitAnd/BitOr with a named constant uses COMPRESSION_FLAG / LENGTH_MASK
    masks = {"seglog::COMPRESSION_FLAG": 0, "seglog::LENGTH_MASK": 0}
    for b in prog.bodies.values():
        for i, j, s in b.assigns():
            rv = s["rv"]
            if rv["k"] == "bin" and rv["o"] in ("BitAnd", "BitOr"):
                for o in (rv["a"], rv["b"]):
                    if o.get("named") in masks:
                        masks[o["named"]] += 1
                    elif "c" in o and o.get("ty") == "u32" and o.get("v") in ("2147483648", "2147483647") and b.path.startswith("seglog::"):
                        chk.fail("R17.2", b.path, "literal-mask", "a literal length/flag mask is used instead of COMPRESSION_FLAG / LENGTH_MASK", b, s["line"])
    if prog.consts.get("seglog::COMPRESSION_FLAG", 1 << 31) + prog.consts.get("seglog::LENGTH_MASK", (1 << 31) - 1) == (1 << 32) - 1 and \
            prog.consts.get("seglog::COMPRESSION_FLAG", 1 << 31) & prog.consts.get("seglog::LENGTH_MASK", (1 << 31) - 1) == 0:
        chk.ok("R17.2", "COMPRESSION_FLAG and LENGTH_MASK partition the length word (%d uses)" % sum(masks.values()), "crates/seglog/src/lib.rs")
    else:
        chk.fail("R17.2", "seglog", "mask-constants", "COMPRESSION_FLAG and LENGTH_MASK no longer partition the 32-bit length word", None)
    chk.floor("R17.2-masks", sum(masks.values()), 5)

    # ---------------- R17.4 bounds
    bounds_checked(chk, prog, "R17.4", READERS[:2] + ("seglog::read::Reader::<H>::read_bytes",))
    # R5.4 (reopen clause) is shared with C05
    _marker_width(chk, prog)
    _header_fits(chk, prog)
    _buffer_slice_covered(chk, prog)
    return {}


def _is_flushed_leaf(x):
    return isinstance(x, tuple) and x and ((x[0] == "call" and x[1] == "seglog::FlushedOffset::load") or (x[0] == "param" and x[2] == "flushed_offset"))


def _mentions_flushed(t):
    return any(_is_flushed_leaf(x) for x in walk(t))


def _monotone_in_flushed(t):
    """is the term the flushed offset itself, or the flushed offset minus something (plain / checked / saturating), a cast or a min of such? Only
    then does `end <= term` bound the read by the flushed offset; a symmetric or wrapping derivative (abs_diff, wrapping_sub) does not."""
    t = strip(t)
    if _is_flushed_leaf(t):
        return True
    if t[0] == "cast":
        return _monotone_in_flushed(t[1])
    if t[0] in ("field", "variant"):
        return _monotone_in_flushed(t[1])
    if t[0] == "bin" and t[1] in ("Sub", "SubWithOverflow", "SubUnchecked"):
        return _monotone_in_flushed(t[2]) and not _mentions_flushed(t[3])
    if t[0] == "bin" and t[1] in ("Add", "AddWithOverflow"):
        return (_monotone_in_flushed(t[2]) and not _mentions_flushed(t[3])) or (_monotone_in_flushed(t[3]) and not _mentions_flushed(t[2]))
    if t[0] == "call":
        last = t[1].rsplit("::", 1)[-1]
        if last in ("saturating_sub", "checked_sub") and len(t[2]) == 2:
            return _monotone_in_flushed(t[2][0]) and not _mentions_flushed(t[2][1])
        if last == "min" and len(t[2]) == 2:
            return any(_monotone_in_flushed(a) for a in t[2])
        if last in ("unwrap", "unwrap_or", "expect", "try_into", "into", "from", "try_from", "unwrap_or_default", "branch", "ok") and t[2]:
            return _monotone_in_flushed(t[2][0])
        return False
    if t[0] == "phi":
        alts = [a for a in t[1] if strip(a)[0] != "cycle"]
        return bool(alts) and all(_monotone_in_flushed(a) or not _mentions_flushed(a) for a in alts) and any(_monotone_in_flushed(a) for a in alts)
    return False


def _slice_width(term):
    """width of `base[..c]` / `base[a..a+c]` as an int, else None"""
    from ..gate import linear
    t = strip(term)
    if t[0] != "call" or not t[1].endswith("::index") or len(t[2]) != 2:
        return None
    r = strip(t[2][1])
    if r[0] != "agg":
        return None
    if r[1].endswith("ops::RangeTo") and len(r[2]) == 1:
        e = strip(r[2][0])
        return e[2] if e[0] == "const" else None
    if r[1].endswith("ops::Range") and len(r[2]) == 2:
        sb, so = linear(r[2][0])
        eb, eo = linear(r[2][1])
        if show(sb) == show(eb):
            return eo - so
        if strip(r[2][0])[0] == "const" and strip(r[2][1])[0] == "const":
            return strip(r[2][1])[2] - strip(r[2][0])[2]
    return None


def _marker_width(chk, prog):
    import re
    wb = prog.body("seglog::write::Writer::<H>::set_len")
    width = None
    for bi, t in wb.calls():
        if (wb.callee_decl(t) or "").endswith("write_all_at"):
            p = op_place(t["args"][1])
            l = p["l"] if p else None
            for _ in range(6):
                if l is None:
                    break
                m = re.match(r"^&?\s*\[u8; (\d+)\]$", wb.local_ty(l).strip())
                if m:
                    width = int(m.group(1))
                    break
                ds = [d for d in wb.defs.get(l, []) if not d[2]["p"]]
                if len(ds) != 1:
                    break
                rv = ds[0][3]
                q = op_place(rv.get("op")) if rv["k"] in ("use", "cast") else (rv.get("place") if rv["k"] == "ref" else None)
                l = q["l"] if q else None
    if width is None:
        raise Inconclusive("set_len: the width of the zero marker written with write_all_at could not be determined")
    n = 0
    for p, b in sorted(prog.bodies.items()):
        for bi, t in b.calls():
            if not (b.callee_decl(t) or "").endswith("read::is_truncation_marker"):
                continue
            n += 1
            ev = Ev(prog, b)
            w = _slice_width(ev.operand(t["args"][0], (bi, "T")))
            if w is None:
                chk.inconc("%s L%s: the width of the slice given to is_truncation_marker could not be determined" % (p, t.get("line")))
            elif w == width:
                chk.ok("R17.5", "%s tests %d bytes = the marker Writer::set_len writes" % (p.rsplit("::", 1)[-1], w), b.where(t["line"]))
            else:
                chk.fail("R17.5", b.root or b.path, "marker-width", "the truncation-marker test looks at %d bytes but Writer::set_len writes a %d-byte zero marker: "
                         "%s" % (w, width, "a valid record whose first %d bytes are zero (empty record: zero length word, non-zero checksum) is taken for the end of the log" % w
                         if w < width else "bytes after the marker decide whether it is recognised"), b, t["line"])
    chk.floor("R17.5", n, 3)


def _roots(term):
    """buffers a slice term is cut from"""
    out = set()
    for x in walk(term):
        if not isinstance(x, tuple) or not x:
            continue
        if x[0] == "call" and (x[1].endswith("ReadAheadBuf::read") or "from_elem" in x[1]):
            out.add(("call", x[1].rsplit("::", 2)[-2] + "::" + x[1].rsplit("::", 1)[-1], x[3]))
        elif x[0] == "field" and x[2].endswith("_buf"):
            out.add(("field", x[2]))
        elif x[0] == "param" and x[2] in ("bytes",):
            out.add(("param", x[2]))
    return out


def _returned_is_checked(chk, prog):
    """the header/data returned in Ok are cut from the same buffer(s) as the slices passed to calculate_crc32c"""
    for path in ("seglog::read::Reader::<H>::read_record_sequential", "seglog::parse::parse_record", "seglog::read::Reader::<H>::read_record"):
        b = prog.body(path)
        ev = Ev(prog, b)
        checked = set()
        for bi, t in calls(b, CRC):
            for a in t["args"][1:]:
                checked |= _roots(ev.operand(a, (bi, "T")))
        for g in crc_gates(prog, b, ev):           # includes comparisons made in a helper, with the caller's arguments substituted
            for x in walk(g[4]):
                if isinstance(x, tuple) and x and x[0] == "call" and x[1] == CRC:
                    for a in x[2][1:]:
                        checked |= _roots(a)
        for ob, s in ok_return_blocks(b):
            term = ev.operand(s["rv"]["ops"][0], (ob, 0))
            ret = _roots(term) - {r for r in _roots(term) if r[0] == "field" and r[1] == "decompress_buf"}
            if not checked or not ret:
                raise Inconclusive("%s: cannot identify the buffers of the checksummed / returned slices" % path)
            extra = ret - checked
            if extra:
                chk.fail("R17.1", path, "returned-not-checked", "the record returned in Ok is cut from %s, which is not among the checksummed buffers %s" % (sorted(extra), sorted(checked)), b, s["line"])
            else:
                chk.ok("R17.1", "%s: returned header/data are cut from the checksummed buffers" % path.split("::")[-1], b.where(s["line"]))


def _is_H(t):
    t = strip(t)
    return t[0] == "const" and str(t[1]).replace("const ", "").strip() == "H"


def _header_fits(chk, prog):
    """R17.6: a corrupted length word can announce a payload shorter than the fixed user header"""
    chk.rule("R17.6", "HEADER FITS: in every reader the payload is split at the user-header size H (`payload[..H]`, `payload[H..]`, `buf[H..payload_len]`) only on the edge of a "
                      "comparison that guarantees payload_len >= H; a length word damaged so that payload_len < H must produce an error (checksum / bounds), not a slice-index panic")
    n = 0
    for path in READERS:
        b = prog.body(path)
        ev = Ev(prog, b)
        guards = []
        for c in comparisons(prog, b, ev):
            a, d, op = c["a"], c["b"], c["op"]
            if _is_H(d) and not _is_H(a):
                pass
            elif _is_H(a) and not _is_H(d):
                op = SWAP[op]
                a = d
            else:
                continue
            # a is compared with H: it must be the decoded payload length (the masked length word)
            if not any(isinstance(x, tuple) and x and x[0] == "bin" and x[1] == "BitAnd" for x in walk(a)):
                continue
            sw = switch_on(b, c["sw_block"], c["lhs"]["l"])
            if not sw:
                continue
            edge = sw[1] if op == "Lt" else (sw[0] if op == "Ge" else None)       # payload_len >= H holds on this edge
            if edge is not None:
                guards.append((c["sw_block"], edge))
        for bi, t in b.calls():
            if not (b.callee_decl(t) or "").endswith("Index::index") or len(t["args"]) != 2:
                continue
            r = strip(ev.operand(t["args"][1], (bi, "T")))
            if r[0] != "agg" or not any(_is_H(x) for x in r[2]):
                continue
            n += 1
            if any(edge_dominates(b, gb, ge, bi) for gb, ge in guards):
                chk.ok("R17.6", "%s L%s: split at H under payload_len >= H" % (path.rsplit("::", 1)[-1], t.get("line")), b.where(t["line"]))
            else:
                chk.fail("R17.6", path, "header-split-unguarded", "the payload is split at the header size H without a preceding `payload_len >= H`: a single bit flip in the length word "
                         "(e.g. 1 -> 0 for an empty record) makes the reader panic instead of reporting corruption", b, t["line"])
    chk.floor("R17.6", n, 4)


def _buffer_slice_covered(chk, prog):
    """R17.7: bytes taken out of a read buffer were read into it by this call"""
    chk.rule("R17.7", "BUFFER SLICE COVERED: in Reader::read_record a slice of the optimistic buffer whose end depends on the decoded payload length is taken only on the edge of a "
                      "comparison that bounds that end by the flushed offset loaded in this call or by the number of bytes the (clamped) optimistic read actually fetched; otherwise "
                      "the tail of a truncated record is supplied by whatever the buffer held before (zeros, or an earlier read) and can pass the checksum")
    path = "seglog::read::Reader::<H>::read_record"
    b = prog.body(path)
    ev = Ev(prog, b)

    def dep_len(t):
        return any(isinstance(x, tuple) and x and x[0] == "bin" and x[1] == "BitAnd" for x in walk(t))

    def dep_flushed(t):
        return any(isinstance(x, tuple) and x and ((x[0] == "call" and x[1].endswith("FlushedOffset::load")) or (x[0] == "param" and x[2] == "flushed_offset")) for x in walk(t))

    guards = []
    for c in comparisons(prog, b, ev):
        a, d, op = c["a"], c["b"], c["op"]
        if dep_len(a) and dep_flushed(d) and not dep_len(d):
            pass
        elif dep_len(d) and dep_flushed(a) and not dep_len(a):
            op = SWAP[op]
        else:
            continue
        sw = switch_on(b, c["sw_block"], c["lhs"]["l"])
        if not sw:
            continue
        edge = sw[0] if op in ("Le", "Lt") else (sw[1] if op in ("Gt", "Ge") else None)     # len-side <= bound holds on this edge
        if edge is not None:
            guards.append((c["sw_block"], edge, c["line"]))
    n = 0
    for bi, t in b.calls():
        if not (b.callee_decl(t) or "").endswith("Index::index") or len(t["args"]) != 2:
            continue
        base = ev.operand(t["args"][0], (bi, "T"))
        rng = strip(ev.operand(t["args"][1], (bi, "T")))
        if not any(isinstance(x, tuple) and x and x[0] == "field" and x[2] == "optimistic_buf" for x in walk(base)):
            continue
        if rng[0] != "agg" or not any(dep_len(x) for x in rng[2]):
            continue
        n += 1
        if any(edge_dominates(b, gb, ge, bi) for gb, ge, _ in guards):
            chk.ok("R17.7", "optimistic_buf[..payload end] taken under a bound by the flushed offset / bytes read", b.where(t["line"]))
        else:
            chk.fail("R17.7", path, "buffer-slice-unbounded", "the payload is cut out of the optimistic buffer without a comparison of its end with the flushed offset or with the number of "
                     "bytes actually read: a record truncated inside its payload is completed from stale buffer contents and can be returned as valid", b, t["line"])
    chk.floor("R17.7", n, 1)


def bounds_checked(chk, prog, rule, paths):
    """every positional read in the given readers is dominated by a comparison of its end with (a value monotone in) the flushed offset (C17 R17.4, C18 R18.5)"""
    for path in paths:
        b = prog.body(path)
        ev = Ev(prog, b)
        reads = calls(b, "FileExt::read_exact_at", "FileExt::read_at", suffix=True) + calls(b, "seglog::read::ReadAheadBuf::read")
        oob = [i for i, j, s in b.assigns() if s["rv"]["k"] == "agg" and s["rv"]["ak"].endswith("ReadError::OutOfBounds")]
        cmps = [c for c in comparisons(prog, b, ev) if c["op"] in ("Gt", "Ge", "Lt", "Le") and
                (_monotone_in_flushed(c["a"]) != _monotone_in_flushed(c["b"]))]
        if not reads:
            continue
        bad = [t for bi, t in reads if not any(b.dominates(c["sw_block"], bi) for c in cmps)]
        if bad:
            # the bound for the first read may have been checked by the (only) caller before the call
            callers = prog.callers().get(path, [])
            caller_checked = bool(callers)
            for cb_, cbi in callers:
                cev2 = Ev(prog, cb_)
                ccmps = [c for c in comparisons(prog, cb_, cev2) if c["op"] in ("Gt", "Ge", "Lt", "Le") and
                         (has_call(c["a"], lambda n: n == "seglog::FlushedOffset::load") or has_call(c["b"], lambda n: n == "seglog::FlushedOffset::load"))]
                if not any(cb_.dominates(c["sw_block"], cbi) for c in ccmps):
                    caller_checked = False
            if caller_checked:
                bad = [t for t in bad if t is not reads[0][1]]
        if bad or not oob:
            chk.fail(rule, path, "unbounded-read", "a read of record bytes (L%s) is not preceded by a comparison with the flushed offset" % (bad[0]["line"] if bad else "?"), b, bad[0]["line"] if bad else None)
        else:
            chk.ok(rule, "%s: %d reads, each after a flushed-offset bound check" % (path.split("::")[-1], len(reads)), b.where())
