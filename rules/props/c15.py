"""C15 - concurrent readers see acknowledged writes and never go backwards (R15.1-R15.3)."""
from ..facts import Program, Inconclusive, op_place
from ..flow import Ev, walk, show, strip
from ..util import calls, field_stores

WS = "sierradb::writer_thread_pool::WriterSet"
ADD = "sierradb::reader_thread_pool::ReaderThreadPool::add_bucket_segment"
WTP = "sierradb::writer_thread_pool::WriterThreadPool::"


def guard_region(body, acq_block, guard_local):
    """blocks executed while the lock guard returned by the call in acq_block is certainly alive:
    reachable from the acquisition without passing a drop/move of the guard."""
    drops = set()
    for i, blk in enumerate(body.blocks):
        t = blk["t"]
        if t["k"] == "drop" and t["place"]["l"] == guard_local and not t["place"]["p"]:
            drops.add(i)
        # a move of the guard out of the local also ends the region
        for s in blk["s"]:
            if s["k"] == "assign" and s["rv"]["k"] == "use" and "mv" in s["rv"]["op"] and s["rv"]["op"]["mv"]["l"] == guard_local and not s["rv"]["op"]["mv"]["p"]:
                drops.add(i)
    region = body.reach_after([acq_block], avoid=frozenset(drops))
    return region, drops


def run(chk, facts_dir, tier):
    prog = Program(facts_dir, crates=["sierradb-lib"])
    chk.rule("R15.1", "PUBLICATION ORDER in WriterSet::rollover: the reader-pool installation that carries the sealed segment's closed indexes executes while the write guard "
                      "on the live indexes is held, so no reader can see the new empty live index before the sealed segment is findable")
    chk.rule("R15.2", "the three live-index swaps (mem::replace) and the publication of the new live segment id (index_segment_id.store) happen under the same guard")
    chk.rule("R15.3", "readers obtain (live segment id, offset) under one read guard: with_*_index call their closure while the guard is held")
    chk.not_decided += ["the schedule space; the rules decide the window the property's anchor names",
                        "a different design (readers falling back to the previous live index) would be reported as 'not established'"]
    rb = prog.body(WS + "::rollover")
    chk.analysed(rb.path)
    ev = Ev(prog, rb)
    acq = calls(rb, "tokio::sync::RwLock::<T>::blocking_write")
    if len(acq) != 1:
        raise Inconclusive("rollover: expected one blocking_write, found %d" % len(acq))
    ab, at = acq[0]
    guard = at["dest"]["l"]
    region, drops = guard_region(rb, ab, guard)
    if not drops:
        raise Inconclusive("rollover: the guard is never dropped?")
    # R15.1
    adds = calls(rb, ADD)
    sealed = []
    for bi, t in adds:
        terms = [ev.operand(a, (bi, "T")) for a in t["args"][3:6]]
        if any(any(isinstance(x, tuple) and x and x[0] == "agg" and x[1].endswith("Option::Some") for x in walk(tm)) for tm in terms):
            sealed.append((bi, t))
    if len(sealed) != 1:
        chk.fail("R15.1", WS + "::rollover", "sealed-install-missing", "rollover does not install the sealed segment with its closed indexes in the reader pool exactly once (%d)" % len(sealed), rb)
    else:
        sb, stt = sealed[0]
        if sb in region and rb.dominates(ab, sb):
            chk.ok("R15.1", "sealed segment installed in the reader pool while the live-index write guard is held", rb.where(stt["line"]))
        else:
            chk.fail("R15.1", WS + "::rollover", "install-after-unlock", "the sealed segment's indexes are installed in the reader pool after the live-index lock was released: in between, "
                     "a lookup misses both in the new empty live index and in the reader pool, and an acknowledged event is reported absent", rb, stt["line"])
    # R15.2
    reps = [(bi, t) for bi, t in calls(rb, "std::mem::replace") if _touches_index_field(ev, rb, bi, t)]
    for bi, t in reps:
        if bi in region:
            chk.ok("R15.2", "live index swapped under the guard", rb.where(t["line"]))
        else:
            chk.fail("R15.2", WS + "::rollover", "swap-outside-guard", "a live index is swapped outside the write guard", rb, t["line"])
    chk.floor("R15.2-swaps", len(reps), 3)
    stores = []
    for bi, t in rb.calls():
        c = rb.callee_decl(t) or ""
        if c.endswith("::store") and "atomic" in c:
            recv = ev.operand(t["args"][0], (bi, "T"))
            if any(isinstance(x, tuple) and x and x[0] == "field" and x[2] == "index_segment_id" for x in walk(recv)):
                stores.append((bi, t))
    if len(stores) != 1:
        chk.fail("R15.2", WS + "::rollover", "segment-id-store", "rollover does not publish the new live segment id exactly once (%d stores)" % len(stores), rb)
    else:
        bi, t = stores[0]
        after_swaps = all(bi in rb.reach_after([r[0]]) for r in reps)
        if bi in region and after_swaps:
            chk.ok("R15.2", "index_segment_id published under the guard, after the index swap", rb.where(t["line"]))
        else:
            chk.fail("R15.2", WS + "::rollover", "segment-id-outside-guard", "the new live segment id is published %s: a reader can pair it with offsets of the old live index "
                     "(the new segment is not in the reader pool yet), so acknowledged events are not found" % ("before the live indexes are swapped" if bi in region else "outside the live-index write guard"), rb, t["line"])
    # all writers of index_segment_id in the crate
    for b in prog.bodies.values():
        if b.path == rb.path:
            continue
        e2 = None
        for bi, t in b.calls():
            c = b.callee_decl(t) or ""
            if "atomic" in c and c.rsplit("::", 1)[-1] in ("store", "swap", "fetch_add", "compare_exchange"):
                e2 = e2 or Ev(prog, b)
                recv = e2.operand(t["args"][0], (bi, "T"))
                if any(isinstance(x, tuple) and x and x[0] == "field" and x[2] == "index_segment_id" for x in walk(recv)):
                    chk.fail("R15.2", b.root or b.path, "segment-id-writer", "index_segment_id is written outside WriterSet::rollover", b, t["line"])

    # R15.3
    n = 0
    for name in ("with_event_index", "with_partition_index", "with_stream_index"):
        b = prog.bodies.get(WTP + name + "::{closure#0}")
        if b is None:
            raise Inconclusive("%s coroutine not found" % name)
        chk.analysed(b.path)
        # the read guard is the local assigned from the awaited RwLock::read future; the FnOnce call must precede its drop
        fcalls = [(bi, t) for bi, t in b.calls() if (b.callee_decl(t) or "").endswith("FnOnce::call_once")]
        guards = [i for i, l in enumerate(b.locals) if l["ty"].startswith("tokio::sync::RwLockReadGuard")]
        if len(fcalls) != 1 or not guards:
            raise Inconclusive("%s: cannot find the closure call / read guard" % name)
        fb = fcalls[0][0]
        ok = True
        for g in guards:
            named = b.locals[g]["n"]
            if not named:
                continue
            # only the guard that is actually dereferenced for the lookup (not the moved-from await temporaries)
            if not any(s["k"] == "assign" and s["rv"]["k"] == "ref" and s["rv"]["place"]["l"] == g for blk in b.blocks for s in blk["s"]):
                continue
            for i, blk in enumerate(b.blocks):
                t = blk["t"]
                if t["k"] == "drop" and t["place"]["l"] == g and not t["place"]["p"]:
                    if fb in b.reach_after([i]):
                        ok = False
            # and the guard is acquired before the call
            acq = [i for i, blk in enumerate(b.blocks) for s in blk["s"] if s["k"] == "assign" and s["lhs"]["l"] == g and not s["lhs"]["p"]]
            if not acq or not all(fb in b.reach_after([a]) or a == fb for a in acq):
                ok = False
        n += 1
        if ok:
            chk.ok("R15.3", "%s: the lookup closure runs while the read guard is held" % name, b.where(fcalls[0][1]["line"]))
        else:
            chk.fail("R15.3", WTP + name, "lookup-after-unlock", "the index lookup closure runs after the read guard was released", b, fcalls[0][1]["line"])
    chk.floor("R15.3", n, 3)
    # ---------------- R15.4 the version / sequence queries answer from the newest sealed segment
    chk.rule("R15.4", "QUERIES LOOK AT THE NEWEST SEGMENT FIRST: Database::get_stream_version and get_partition_sequence search the sealed segments newest first when the live index "
                      "misses; oldest-first answers with an old maximum after a rollover, so an acknowledged version is not observed and one reader sees versions go backwards "
                      "(shared with C02 R2.3)")
    from . import c02
    c02.newest_first(chk, prog, "R15.4", (c02.DB + "get_stream_version", c02.DB + "get_partition_sequence"), 2)
    return {}


def _touches_index_field(ev, body, bi, t):
    term = ev.operand(t["args"][0], (bi, "T"))
    return any(isinstance(x, tuple) and x and x[0] == "field" and x[2] in ("event_index", "partition_index", "stream_index") and "LiveIndexSet" in x[3] for x in walk(term))
