"""C08 - the confirmed watermark is sound, monotone and survives restarts (R8.1-R8.5)."""
from ..facts import Program, Inconclusive, op_place
from ..flow import Ev, walk, resolve_upvars, show, strip
from ..gate import comparisons, switch_on, edge_dominates, linear, derive, SWAP
from .. import quorum
from . import c07

CONF = "sierradb_cluster::confirmation::"
WM = CONF + "AtomicWatermark"
ADVANCE = WM + "::advance"
PCS_UPDATE = CONF + "PartitionConfirmationState::update_confirmation"
MGR = CONF + "BucketConfirmationManager::"
ATOMIC_WRITES = ("store", "swap", "compare_exchange", "compare_exchange_weak", "fetch_add", "fetch_sub", "fetch_max",
                 "fetch_min", "fetch_update", "fetch_and", "fetch_or", "fetch_xor", "fetch_nand", "get_mut", "into_inner")


def is_wm_value(t):
    return any(isinstance(x, tuple) and x and x[0] == "field" and x[2] == "value" and x[3] == WM for x in walk(t))


def atomic_write_calls(prog, pred_recv):
    for b in prog.bodies.values():
        ev = None
        for bi, t in b.calls():
            c = b.callee_decl(t) or ""
            if "std::sync::atomic::Atomic" not in c:
                continue
            name = c.rsplit("::", 1)[-1]
            if name not in ATOMIC_WRITES or not t["args"]:
                continue
            ev = ev or Ev(prog, b)
            recv = resolve_upvars(prog, ev.operand(t["args"][0], (bi, "T")), b)
            if pred_recv(recv):
                yield b, bi, t, name


def run(chk, facts_dir, tier):
    prog = Program(facts_dir, crates=["sierradb_cluster-lib"])
    cls = c07.make_cls(prog)
    chk.rule("R8.1", "WHO-MAY write AtomicWatermark.value: only AtomicWatermark::advance, by compare_exchange on the failure edge of "
                     "`new_value <= current` (or fetch_max); advance is called only by update_confirmation and three admin functions without callers")
    chk.rule("R8.2", "MONOTONE MERGE: the stored confirmation count of an unconfirmed event is max(old, reported) (or guarded by reported > old)")
    chk.rule("R8.3", "ADVANCE LOOP: the value passed to advance is either the current watermark or a counter derived from it that is only "
                     "assigned on the true edge of `count >= rf/2+1` for the entry looked up at exactly that counter")
    chk.rule("R8.4", "PERSISTENCE ORDER: rename(temp -> current) is dominated by write_all and sync_all of the temp file; `current` is only "
                     "ever renamed to `previous`, never removed; loading tries current before previous")
    chk.rule("R8.5", "RESTART: initialize replays the partition from the loaded watermark through update_confirmation(seq+1, on-disk count) "
                     "before it can return Ok")
    chk.not_decided += ["the permutation argument itself (any delivery order gives the same watermark): follows from R8.1-R8.3 by a pencil proof: "
                        "counts only grow (R8.2), the watermark only grows (R8.1) and is advanced exactly over the contiguous run of entries at quorum (R8.3), "
                        "so the final value is the length of the longest quorum prefix of the pointwise-maximal counts, which is order independent",
                        "operator overrides (admin_force_watermark, admin_skip_event, validate_against_events) are outside the property; the rule only "
                        "checks that nothing in the crate calls them"]

    # ---------------- R8.1
    n = 0
    for b, bi, t, name in atomic_write_calls(prog, is_wm_value):
        n += 1
        r = b.root or b.path
        if r != ADVANCE:
            chk.fail("R8.1", r, "watermark-writer:%s" % name, "AtomicWatermark.value is written outside AtomicWatermark::advance", b, t["line"])
            continue
        chk.analysed(b.path)
        if name == "fetch_max":
            chk.ok("R8.1", "advance uses fetch_max", b.where(t["line"]))
            continue
        if name not in ("compare_exchange", "compare_exchange_weak"):
            chk.fail("R8.1", ADVANCE, "watermark-store:%s" % name, "advance writes the watermark with %s: not monotone under concurrent advances" % name, b, t["line"])
            continue
        # guard: dominated by false edge of new_value <= current, current = load(value), and expected arg == that current
        ev = Ev(prog, b)
        ok = False
        for c in comparisons(prog, b, ev):
            a, d = strip(c["a"]), strip(c["b"])
            op = c["op"]
            if a[0] == "param" and a[1] == 2 and d[0] == "call" and d[1].endswith("::load") and is_wm_value(d):
                pass
            elif d[0] == "param" and d[1] == 2 and a[0] == "call" and a[1].endswith("::load") and is_wm_value(a):
                op = SWAP[op]
                d = a
            else:
                continue
            sw = switch_on(b, c["sw_block"], c["lhs"]["l"])
            if not sw:
                continue
            # new <= current  -> proceed on false ; new > current -> proceed on true
            edge = None
            if op == "Le":
                edge = (c["sw_block"], sw[1])
            elif op == "Gt":
                edge = (c["sw_block"], sw[0])
            if edge and edge_dominates(b, edge[0], edge[1], bi):
                exp = strip(ev.operand(t["args"][1], (bi, "T")))
                newv = strip(ev.operand(t["args"][2], (bi, "T")))
                if show(exp) == show(d) and newv[0] == "param" and newv[1] == 2:
                    ok = True
        if ok:
            chk.ok("R8.1", "advance: compare_exchange(current, new) under `new > current`", b.where(t["line"]))
        else:
            chk.fail("R8.1", ADVANCE, "watermark-cas-guard", "the compare_exchange in advance is not guarded by `new_value > current` on the value it expects", b, t["line"])
    chk.floor("R8.1", n, 1)
    # constructions of AtomicWatermark
    for b in prog.bodies.values():
        for i, j, s in b.assigns():
            if s["rv"]["k"] == "agg" and s["rv"]["ak"] == "adt:" + WM:
                r = b.root or b.path
                if r == WM + "::new" or "Decode" in r:
                    chk.ok("R8.1", "AtomicWatermark constructed in %s" % r.split("::")[-1], b.where(s["line"]))
                else:
                    chk.fail("R8.1", r, "watermark-constructor", "AtomicWatermark is built outside new()/Decode", b, s["line"])
    # callers of advance
    admin = {MGR + "admin_force_watermark", MGR + "admin_skip_event", MGR + "validate_against_events"}
    for b, bi in prog.callers().get(ADVANCE, []):
        r = b.root or b.path
        if r == PCS_UPDATE or r in admin:
            chk.ok("R8.1", "advance called from %s" % r.split("::")[-1], b.where(b.term(bi)["line"]))
        else:
            chk.fail("R8.1", r, "advance-caller", "a new caller of AtomicWatermark::advance: its argument is not covered by the advance-loop rule", b, b.term(bi)["line"])
    for a in sorted(admin):
        prog.body(a)
        cs = prog.callers().get(a, [])
        if cs:
            b, bi = cs[0]
            chk.fail("R8.1", b.root or b.path, "admin-caller:%s" % a.split("::")[-1], "operator override %s is now called from the crate" % a.split("::")[-1], b, b.term(bi)["line"])
        else:
            chk.ok("R8.1", "%s has no caller in the crate" % a.split("::")[-1], "")

    # ---------------- R8.2 / R8.3 on PartitionConfirmationState::update_confirmation
    ub = prog.body(PCS_UPDATE)
    chk.analysed(ub.path)
    ev = Ev(prog, ub)
    n_store = 0
    for i, j, s in ub.assigns():
        fs = [e for e in s["lhs"]["p"] if isinstance(e, dict) and "f" in e]
        if not fs or fs[-1]["n"] != "confirmation_count" or "UnconfirmedEventInfo" not in fs[-1]["o"]:
            continue
        n_store += 1
        term = strip(ev._rvalue(s["rv"], (i, j), 0))
        ok = False
        if term[0] == "call" and (term[1].endswith("::max") or term[1] == "std::cmp::max"):
            has_old = any(_is_count_field(a) for a in term[2])
            has_new = any(strip(a)[0] == "param" for a in term[2])
            ok = has_old and has_new
        if not ok:
            # guarded overwrite: dominated by reported > old
            for c in comparisons(prog, ub, ev):
                a, d, op = strip(c["a"]), strip(c["b"]), c["op"]
                if _is_count_field(d) and a[0] == "param":
                    pass
                elif _is_count_field(a) and d[0] == "param":
                    op = SWAP[op]
                else:
                    continue
                sw = switch_on(ub, c["sw_block"], c["lhs"]["l"])
                if not sw:
                    continue
                edge = (c["sw_block"], sw[0]) if op in ("Gt", "Ge") else ((c["sw_block"], sw[1]) if op in ("Le", "Lt") else None)
                if edge and edge_dominates(ub, edge[0], edge[1], i):
                    ok = True
        if ok:
            chk.ok("R8.2", "confirmation_count stored as max(old, reported)", ub.where(s["line"]))
        else:
            chk.fail("R8.2", PCS_UPDATE, "count-overwrite", "the stored confirmation count is overwritten by the reported one (%s): a stale lower report "
                     "arriving later un-confirms the event, so the final watermark depends on delivery order" % show(term), ub, s["line"])
    if n_store == 0:
        raise Inconclusive("update_confirmation: no store to UnconfirmedEventInfo.confirmation_count found")

    _advance_loop(chk, prog, cls, ub, ev, allow_skip=False)
    sk = prog.bodies.get(MGR + "admin_skip_event::{closure#0}")
    # (the admin override is not part of the property; it is only held to 'no callers' above)

    # ---------------- R8.6 role binding of the quorum inputs
    chk.rule("R8.6", "ROLE BINDING: every call that passes a replication factor, a required quorum or a confirmation count binds it to the parameter of that role: "
                     "`replication_factor` receives the configured factor itself (never rf/2+1, which the callee would halve again), `required_quorum` receives rf/2+1, "
                     "`confirmation_count` is never computed from either")
    n86 = quorum.check_role_args(chk, prog, "R8.6")
    chk.floor("R8.6", n86, 6)
    # ---------------- R8.4
    pb = prog.body(MGR + "persist_bucket_state::{closure#0}")
    chk.analysed(pb.path)
    pev = Ev(prog, pb)

    def kind_of_path(term):
        ks = set()
        for x in walk(term):
            if isinstance(x, tuple) and x and x[0] == "call":
                for k in ("current", "previous", "temp"):
                    if x[1] == MGR + "get_%s_state_path" % k:
                        ks.add(k)
        return ks

    renames, removes, writes, syncs = [], [], [], []
    for bi, t in pb.calls():
        c = pb.callee_decl(t) or ""
        if c.endswith("fs::rename"):
            a0 = kind_of_path(pev.operand(t["args"][0], (bi, "T")))
            a1 = kind_of_path(pev.operand(t["args"][1], (bi, "T")))
            renames.append((bi, t, a0, a1))
        elif c.endswith("fs::remove_file") or c.endswith("fs::remove_dir_all"):
            removes.append((bi, t, kind_of_path(pev.operand(t["args"][0], (bi, "T")))))
        elif c.endswith("::write_all"):
            writes.append(bi)
        elif c.endswith("::sync_all") or c.endswith("::sync_data"):
            syncs.append(bi)
    commit = [r for r in renames if r[3] == {"current"}]
    if len(commit) != 1 or commit[0][2] != {"temp"}:
        chk.fail("R8.4", MGR + "persist_bucket_state", "commit-rename", "expected exactly one rename(temp -> current); found %s" % [(sorted(r[2]), sorted(r[3])) for r in renames], pb)
    else:
        cb = commit[0][0]
        if any(pb.dominates(w, cb) for w in writes) and any(pb.dominates(s_, cb) for s_ in syncs) and \
                any(pb.dominates(w, s_) for w in writes for s_ in syncs):
            chk.ok("R8.4", "rename(temp -> current) dominated by write_all then sync_all", pb.where(commit[0][1]["line"]))
        else:
            chk.fail("R8.4", MGR + "persist_bucket_state", "rename-before-sync", "the new state file is renamed into place before it was written and synced: "
                     "a crash leaves an empty or partial current file", pb, commit[0][1]["line"])
        # the awaited write/sync results must be checked: a `?` between sync and rename
        tries = [bi for bi, t in pb.calls() if (pb.callee_decl(t) or "").endswith("Try::branch")]
        if any(pb.dominates(s_, x) and pb.dominates(x, cb) for s_ in syncs for x in tries):
            chk.ok("R8.4", "sync_all result is checked before the rename", pb.where(commit[0][1]["line"]))
        else:
            chk.fail("R8.4", MGR + "persist_bucket_state", "sync-unchecked", "the result of sync_all is not checked before the rename", pb, commit[0][1]["line"])
    for bi, t, k in removes:
        if "current" in k or not k:
            chk.fail("R8.4", MGR + "persist_bucket_state", "remove-current", "the current state file is removed (or an unknown path is removed): a crash right after leaves no current state", pb, t["line"])
        else:
            chk.ok("R8.4", "remove_file only on %s" % sorted(k), pb.where(t["line"]))
    for bi, t, a0, a1 in renames:
        if "current" in a0 and a1 != {"previous"}:
            chk.fail("R8.4", MGR + "persist_bucket_state", "rename-current-away", "the current state file is renamed to something other than `previous`", pb, t["line"])
        elif "current" in a0:
            chk.ok("R8.4", "rename(current -> previous) keeps the backup", pb.where(t["line"]))
            # ... and must happen after the temp file is durable
            if not any(pb.dominates(s_, bi) for s_ in syncs):
                chk.fail("R8.4", MGR + "persist_bucket_state", "backup-before-sync", "current is moved to previous before the new file is synced", pb, t["line"])
    lb = prog.body(MGR + "load_bucket_state::{closure#0}")
    chk.analysed(lb.path)
    lev = Ev(prog, lb)
    loads = []
    for bi, t in lb.calls():
        if (lb.callee_decl(t) or "") == MGR + "load_state_file":
            loads.append((bi, kind_of_path(lev.operand(t["args"][1], (bi, "T"))), t["line"]))
    cur = [x for x in loads if x[1] == {"current"}]
    prev = [x for x in loads if x[1] == {"previous"}]
    if len(cur) == 1 and len(prev) == 1 and lb.dominates(cur[0][0], prev[0][0]):
        chk.ok("R8.4", "load_bucket_state tries current, then previous", lb.where(cur[0][2]))
    else:
        chk.fail("R8.4", MGR + "load_bucket_state", "load-order", "state loading does not try `current` first and `previous` as fallback: %s" % [(sorted(k), l) for _, k, l in loads], lb)
    # the empty state is the LAST resort: it is only installed after both files were tried (between the two renames of a persist only `previous` exists)
    if len(cur) == 1 and len(prev) == 1:
        empties = [(bi, t) for bi, t in lb.calls() if (lb.callee_decl(t) or "").endswith("HashMap::<K, V>::new") or (lb.callee_decl(t) or "").endswith("::default")]
        if not empties:
            chk.ok("R8.4", "no empty-state fallback in load_bucket_state", lb.where())
        for bi, t in empties:
            if lb.dominates(prev[0][0], bi) and lb.dominates(cur[0][0], bi):
                chk.ok("R8.4", "the empty state is installed only after current and previous were both tried", lb.where(t["line"]))
            else:
                chk.fail("R8.4", MGR + "load_bucket_state", "empty-before-fallback", "an empty confirmation state is installed on a path that did not try both state files: a crash between the "
                         "two renames of persist_bucket_state leaves only `previous`, and this path restarts the watermark at 0", lb, t["line"])

    # ---------------- R8.5
    ib = prog.body(MGR + "initialize::{closure#0}")
    chk.analysed(ib.path)
    iev = Ev(prog, ib)
    rp = [(bi, t) for bi, t in ib.calls() if (ib.callee_decl(t) or "") == "sierradb::database::Database::read_partition"]
    up = [(bi, t) for bi, t in ib.calls() if (ib.callee_decl(t) or "") == MGR + "update_confirmation"]
    arg_off = 2
    if not up:
        # the replay may feed the partition state directly: PartitionConfirmationState::update_confirmation(version, count, rf)
        up = [(bi, t) for bi, t in ib.calls() if (ib.callee_decl(t) or "") == PCS_UPDATE]
        arg_off = 1
    ld = [(bi, t) for bi, t in ib.calls() if (ib.callee_decl(t) or "") == MGR + "load_bucket_state"]
    if not rp or not up or not ld:
        chk.fail("R8.5", MGR + "initialize", "replay-missing", "initialize no longer loads the persisted state and replays the partition log through update_confirmation "
                 "(read_partition=%d, update_confirmation=%d, load_bucket_state=%d)" % (len(rp), len(up), len(ld)), ib)
    else:
        start = resolve_upvars(prog, iev.operand(rp[0][1]["args"][2], (rp[0][0], "T")), ib)
        k = derive(cls, start, cls.is_y_leaf)
        if k == 0:
            chk.ok("R8.5", "replay starts at the loaded watermark", ib.where(rp[0][1]["line"]))
        else:
            chk.fail("R8.5", MGR + "initialize", "replay-start", "the replay does not start at the loaded watermark (start = %s)" % show(start)[:120], ib, rp[0][1]["line"])
        ver = iev.operand(up[0][1]["args"][arg_off], (up[0][0], "T"))
        cnt = iev.operand(up[0][1]["args"][arg_off + 1], (up[0][0], "T"))
        base, off = linear(ver)
        if c07.is_x_leaf(strip(base)) and off == 1 and _is_rec_count(cnt):
            chk.ok("R8.5", "replay feeds update_confirmation(seq + 1, event.confirmation_count)", ib.where(up[0][1]["line"]))
        else:
            chk.fail("R8.5", MGR + "initialize", "replay-args", "replay does not feed (partition_sequence + 1, on-disk confirmation_count): %s, %s" % (show(ver)[:80], show(cnt)[:80]), ib, up[0][1]["line"])
        # order: load before replay, replay reachable, and every Ok return is after the replay loop head
        if ld[0][0] not in ib.reach_after([rp[0][0]]) and rp[0][0] in ib.reach_after([ld[0][0]]):
            chk.ok("R8.5", "state is loaded before the replay (never after it)", ib.where(ld[0][1]["line"]))
        else:
            chk.fail("R8.5", MGR + "initialize", "replay-order", "the replay does not come after loading the persisted state", ib, rp[0][1]["line"])
        # Ok(()) returns: assignments of Result::Ok aggregate to _0
        oks = [i for i, j, s in ib.assigns() if s["lhs"]["l"] == 0 and not s["lhs"]["p"] and s["rv"]["k"] == "agg" and s["rv"]["ak"].endswith("Result::Ok")]
        # the replay loop head is the into_iter over the collected watermarks that dominates read_partition
        heads = [bi for bi, t in ib.calls() if "into_iter" in (ib.callee_decl(t) or "") and ib.dominates(bi, rp[0][0]) and ib.dominates(ld[0][0], bi) is False]
        heads = [bi for bi, t in ib.calls() if "into_iter" in (ib.callee_decl(t) or "") and ib.dominates(bi, rp[0][0])]
        if oks and heads and all(any(ib.dominates(h, o) for h in heads) for o in oks):
            chk.ok("R8.5", "every Ok return of initialize comes after the replay loop", ib.where())
        else:
            chk.fail("R8.5", MGR + "initialize", "early-ok", "initialize can return Ok without going through the replay loop", ib)
    return {}


def _is_count_field(t):
    t = strip(t)
    return t[0] == "field" and t[2] == "confirmation_count" and "UnconfirmedEventInfo" in t[3]


def _is_rec_count(t):
    t = strip(t)
    return t[0] == "field" and t[2] == "confirmation_count" and "EventRecord" in t[3]


def _root_local(body, l):
    """follow single-definition copies and borrows (`_x = copy y`, `_x = &y`) back to the user variable"""
    for _ in range(8):
        ds = [d for d in body.defs.get(l, []) if not d[2]["p"]]
        if len(ds) != 1:
            break
        rv = ds[0][3]
        if rv["k"] == "use":
            p = op_place(rv["op"])
        elif rv["k"] == "ref":
            p = rv["place"]
        else:
            break
        if p is None or any(e != "*" for e in p["p"]):
            break
        l = p["l"]
    return l


def _advance_loop(chk, prog, cls, ub, ev, allow_skip):
    adv = [(bi, t) for bi, t in ub.calls() if (ub.callee_decl(t) or "") == ADVANCE]
    if len(adv) != 1:
        raise Inconclusive("update_confirmation: expected one call to advance, found %d" % len(adv))
    ab, at = adv[0]
    p = op_place(at["args"][1])
    # follow plain copies back to the user variable
    l = p["l"]
    for _ in range(6):
        ds = [d for d in ub.defs.get(l, []) if not d[2]["p"]]
        if len(ds) == 1 and ds[0][3]["k"] == "use" and op_place(ds[0][3]["op"]) and not op_place(ds[0][3]["op"])["p"]:
            l = op_place(ds[0][3]["op"])["l"]
        else:
            break
    defs = [d for d in ub.defs.get(l, []) if not d[2]["p"]]
    if not defs:
        raise Inconclusive("update_confirmation: cannot find the definitions of the value passed to advance")
    n_loop = 0
    for (bi, si, lhs, rv) in defs:
        term = ev._rvalue(rv, (bi, si), 0)
        k = derive(cls, term, cls.is_y_leaf)
        if k == 0:
            chk.ok("R8.3", "advance argument initialised with the current watermark", ub.where(ub.stmts(bi)[si]["line"]))
            continue
        n_loop += 1
        line = ub.stmts(bi)[si]["line"]
        # must be a counter derived from the watermark
        if k is None:
            chk.fail("R8.3", PCS_UPDATE, "advance-value", "the value assigned to the new watermark is not a counter derived from the current watermark: %s" % show(term)[:100], ub, line)
            continue
        okq, seen = quorum.count_gate_dominates(prog, ub, bi, count_field="confirmation_count", ev=ev)
        if not okq:
            chk.fail("R8.3", PCS_UPDATE, "advance-ungated", "the watermark candidate is advanced without a dominating `confirmation_count >= rf/2+1` on the entry (seen: %s)" % seen, ub, line)
            continue
        # the entry compared must be the one looked up at exactly this counter: the key of the BTreeMap::get that dominates
        # the assignment is (a borrow of) the very local that is assigned to the watermark candidate
        key_ok = False
        src = op_place(rv.get("op")) if rv["k"] == "use" else None
        src_l = _root_local(ub, src["l"]) if src is not None and not src["p"] else None
        for gb, gt in ub.calls():
            if not (ub.callee_decl(gt) or "").endswith("BTreeMap::<K, V, A>::get") or len(gt["args"]) != 2:
                continue
            if not ub.dominates(gb, bi):
                continue
            kp = op_place(gt["args"][1])
            if kp is not None and src_l is not None and _root_local(ub, kp["l"]) == src_l:
                key_ok = True
        if not key_ok and src_l is None:
            # the candidate is an expression rather than a copy of the counter: fall back to comparing the rendered terms
            for c in comparisons(prog, ub, ev):
                for side in (c["a"], c["b"]):
                    for x in walk(side):
                        if isinstance(x, tuple) and x and x[0] == "call" and x[1].endswith("BTreeMap::<K, V, A>::get") and len(x[2]) == 2:
                            if show(strip(x[2][1])) == show(strip(term)):
                                key_ok = True
        if key_ok:
            chk.ok("R8.3", "watermark candidate := counter only under quorum for the entry at that counter", ub.where(line))
        else:
            chk.fail("R8.3", PCS_UPDATE, "advance-key", "the quorum test is not made on the entry looked up at the counter that becomes the watermark", ub, line)
    if n_loop == 0:
        raise Inconclusive("update_confirmation: no loop assignment of the new watermark found")
    # start of the counter: watermark + 1
    # (derive() above returned the largest offset reachable; the first alternative must be +1)
