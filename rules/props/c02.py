"""C02 - appends are accepted exactly when their version conditions hold (R2.2-R2.5)."""
from ..facts import Program, Inconclusive, op_place
from ..flow import Ev, walk, resolve_upvars, show, strip
from ..gate import comparisons, switch_on, edge_dominates
from ..util import sites_via_helpers, private_wrappers, calls, field_stores, try_continue_block, ok_return_blocks, must_pass
from . import c16

WTP = "sierradb::writer_thread_pool::"
WS = WTP + "WriterSet::"
BSW = "sierradb::bucket::segment::writer::BucketSegmentWriter::"
DB = "sierradb::database::Database::"
LOOKUPS = [WS + "read_stream_latest_version", WS + "read_partition_latest_sequence", DB + "get_stream_version", DB + "get_partition_sequence",
           DB + "read_transaction", DB + "set_confirmations"]


def has_field(term, name, owner_sub=""):
    return any(isinstance(x, tuple) and x and x[0] == "field" and x[2] == name and owner_sub in x[3] for x in walk(term))


def run(chk, facts_dir, tier):
    prog = Program(facts_dir, crates=["sierradb-lib"])
    chk.rule("R2.2", "NO CHANGE ON REJECTION: in handle_write the stores to next_partition_sequences, pending_indexes and unflushed_events come after the last fallible append; "
                     "a failed handle_write reaches set_len (C01 R1.6); validate_event_versions takes &self")
    chk.rule("R2.3", "NEWEST FIRST: the six latest-version/sequence lookups walk the sealed segments in descending order (`rev()` before find_map); validate_event_versions consults "
                     "pending_indexes (reversed) before the live index before the reader pool")
    chk.rule("R2.4", "the partition-sequence check dominates the first append_event and is fed by next_partition_sequence (cache, else live index, else sealed indexes)")
    chk.rule("R2.5", "PENDING LOOKUP: the un-synced entries are searched by stream id only (one equality on stream_id); the partition key is compared afterwards and a mismatch is "
                     "an error, so a pending stream is never invisible to an append with another partition key")
    chk.not_decided += ["equality with a reference model over long histories", "the decision table of the four expectations (R2.1 of the design was dropped: the find_map/or_else/transpose "
                        "chains do not project onto a stable path table)"]
    hw = prog.body(WS + "handle_write")
    chk.analysed(hw.path)
    ev = Ev(prog, hw)
    ae = sites_via_helpers(prog, hw, BSW + "append_event")
    ac = sites_via_helpers(prog, hw, BSW + "append_commit")
    # R2.2
    late_bookkeeping(chk, prog, hw, ev, ae, ac, "R2.2")
    c16.check_sequence_cache(chk, prog, "R2.2")
    vb = prog.body(WS + "validate_event_versions")
    chk.analysed(vb.path)
    if vb.local_ty(1).startswith("&") and not vb.local_ty(1).startswith("&mut"):
        chk.ok("R2.2", "validate_event_versions takes &self", vb.where())
    else:
        chk.fail("R2.2", vb.path, "validate-mutates", "validate_event_versions takes %s" % vb.local_ty(1), vb)

    # R2.4
    vps = calls(hw, WTP + "validate_partition_sequence")
    nps = calls(hw, WS + "next_partition_sequence")
    if len(vps) == 1 and len(nps) == 1 and ae:
        cont = try_continue_block(hw, vps[0][0])
        arg = ev.operand(vps[0][1]["args"][2], (vps[0][0], "T"))
        from_next = any(isinstance(x, tuple) and x and x[0] == "call" and x[1] == WS + "next_partition_sequence" for x in walk(arg))
        if cont is not None and hw.dominates(cont, ae[0][0]) and from_next:
            chk.ok("R2.4", "expected partition sequence validated against next_partition_sequence before the first append_event", hw.where(vps[0][1]["line"]))
        else:
            chk.fail("R2.4", WS + "handle_write", "sequence-check", "events can be appended without the expected-partition-sequence check having succeeded on next_partition_sequence()", hw, vps[0][1]["line"])
    else:
        chk.fail("R2.4", WS + "handle_write", "sequence-check-missing", "handle_write no longer validates the expected partition sequence exactly once", hw)
    # the sequences written are consecutive from next_partition_sequence: partition_sequence field of RawEvent flows from it, incremented by checked_add(1)
    # next_partition_sequence: cache -> live index -> sealed
    nb = prog.body(WS + "next_partition_sequence")
    chk.analysed(nb.path)
    nev = Ev(prog, nb)
    get = [(bi, t) for bi, t in nb.calls() if (nb.callee_decl(t) or "").endswith("HashMap::<K, V, S, A>::get") or (nb.callee_decl(t) or "").endswith("::get")]
    rd = calls(nb, WS + "read_partition_latest_sequence")
    if get and rd and nb.dominates(get[0][0], rd[0][0]):
        chk.ok("R2.4", "next_partition_sequence: cache first, then indexes", nb.where())
    else:
        chk.fail("R2.4", nb.path, "cache-order", "next_partition_sequence does not consult the un-synced cache before the indexes", nb)
    for ob, s in ok_return_blocks(nb):
        pass

    # R2.3
    newest_first(chk, prog, "R2.3", LOOKUPS, 6)
    # within the validator: pending (reversed) before live index before pool
    for fn, idx in ((WS + "read_stream_latest_version", "stream_index"), (WS + "read_partition_latest_sequence", "partition_index")):
        b = prog.body(fn)
        live = calls(b, "tokio::sync::RwLock::<T>::blocking_read")
        pool = calls(b, "sierradb::reader_thread_pool::ReaderThreadPool::install")
        if live and pool and b.dominates(live[0][0], pool[0][0]):
            chk.ok("R2.3", "%s: live index before the sealed segments" % fn.split("::")[-1], b.where())
        else:
            chk.fail("R2.3", fn, "live-after-sealed", "the live index is not consulted before the sealed segments", b)

    # R2.6 which field of an index record is "the latest"
    chk.rule("R2.6", "LATEST MEANS MAX: the four lookups of the latest stream version / partition sequence (the writer's and the database's, sibling pairs) read `version_max` / "
                     "`sequence_max` of an index record - never `sequence` (a per-segment event count), `*_min` or another field: the writer and the query API must agree on what "
                     "the latest position of a stream or partition is")
    import json as _json
    import re as _re
    want = {"read_stream_latest_version": ("StreamIndexRecord", "version_max"), "get_stream_version": ("StreamIndexRecord", "version_max"),
            "read_partition_latest_sequence": ("PartitionIndexRecord", "sequence_max"), "get_partition_sequence": ("PartitionIndexRecord", "sequence_max")}
    n26 = 0
    for root in (WS + "read_stream_latest_version", WS + "read_partition_latest_sequence", DB + "get_stream_version", DB + "get_partition_sequence"):
        rec, fld = want[root.rsplit("::", 1)[-1]]
        fields = set()
        where = None
        for b in prog.family(root):
            for i, j, s_ in b.assigns():
                js = _json.dumps(s_["rv"])
                for m in _re.finditer(r'"n": "(\w+)", "o": "[^"]*%s' % rec, js):
                    fields.add(m.group(1))
                    where = where or (b, s_["line"])
        n26 += 1
        positional = fields - {"partition_key"}
        if positional == {fld}:
            chk.ok("R2.6", "%s reads %s.%s" % (root.rsplit("::", 1)[-1], rec, fld), where[0].where(where[1]) if where else "")
        else:
            chk.fail("R2.6", root, "latest-field:%s" % ",".join(sorted(positional)) , "the latest position is taken from %s of %s instead of `%s` alone: the query API and the writer disagree about "
                     "the latest %s" % (sorted(positional), rec, fld, "version" if "version" in fld else "sequence"), where[0] if where else prog.body(root), where[1] if where else None)
    chk.floor("R2.6", n26, 4)

    # R2.5 pending lookups
    n_pl = 0
    for cb in prog.children(WS + "validate_event_versions"):
        # closures that build StreamLatestVersion from a PendingIndex
        aggs = [(i, s) for i, j, s in cb.assigns() if s["rv"]["k"] == "agg" and s["rv"]["ak"].endswith("StreamLatestVersion")]
        if not aggs or not any("PendingIndex" in l["ty"] for l in cb.locals):
            continue
        n_pl += 1
        cev = Ev(prog, cb)
        eqs = []
        for bi, t in cb.calls():
            c = cb.callee_decl(t) or ""
            if c in ("std::cmp::PartialEq::eq", "std::cmp::PartialEq::ne"):
                a = cev.operand(t["args"][0], (bi, "T"))
                b2 = cev.operand(t["args"][1], (bi, "T"))
                fields = sorted({x[2] for x in list(walk(a)) + list(walk(b2)) if isinstance(x, tuple) and x and x[0] == "field"} | {x[1].split(".")[-1] for x in list(walk(a)) + list(walk(b2)) if isinstance(x, tuple) and x and x[0] == "upvar"})
                eqs.append((c.rsplit("::", 1)[-1], fields, t["line"]))
        for c in comparisons(prog, cb, cev):
            if c["stmt"] != "T":
                eqs.append((c["op"], ["<primitive>"], c["line"]))
        good = len(eqs) == 1 and eqs[0][0] == "eq" and "stream_id" in eqs[0][1] and "partition_key" not in eqs[0][1]
        if good:
            chk.ok("R2.5", "pending entries matched by stream id only", cb.where(aggs[0][1]["line"]))
        else:
            chk.fail("R2.5", WS + "validate_event_versions", "pending-lookup-predicate", "the search of un-synced entries uses %s instead of a single stream-id equality: a stream written under "
                     "another partition key (or otherwise filtered out) is invisible until the next sync, so the partition-key and version checks are skipped for it" % [(e[0], e[1]) for e in eqs], cb, aggs[0][1]["line"])
    chk.floor("R2.5", n_pl, 2)
    # R2.7 every arm falls back to the full lookup
    chk.rule("R2.7", "FULL FALLBACK IN EVERY ARM: in validate_event_versions each first-occurrence arm that searches the un-synced entries falls back to "
                     "read_stream_latest_version (live index, then every sealed segment) - as many fallback calls as pending lookups - and a StreamLatestVersion is built there only "
                     "from a pending entry; an arm that consults the live index alone treats a stream that lives in sealed segments as absent (two creators both succeed with Empty)")
    fam27 = prog.family(WS + "validate_event_versions")
    n_fb = sum(len(calls(b_, WS + "read_stream_latest_version")) for b_ in fam27)
    other_slv = []
    for b_ in fam27:
        aggs_ = [s_ for i, j, s_ in b_.assigns() if s_["rv"]["k"] == "agg" and s_["rv"]["ak"].endswith("StreamLatestVersion")]
        if aggs_ and not any("PendingIndex" in l["ty"] for l in b_.locals):
            other_slv.append((b_, aggs_[0]))
    if n_fb >= n_pl and not other_slv and n_pl:
        chk.ok("R2.7", "%d pending lookups, %d fallbacks to read_stream_latest_version, no other source of the current version" % (n_pl, n_fb), vb.where())
    elif other_slv:
        chk.fail("R2.7", WS + "validate_event_versions", "version-from-partial-source", "the current stream version is built from something other than a pending entry or "
                 "read_stream_latest_version: streams that only exist in sealed segments are treated as new", other_slv[0][0], other_slv[0][1]["line"])
    else:
        chk.fail("R2.7", WS + "validate_event_versions", "arm-without-fallback", "%d arms search the un-synced entries but only %d fall back to read_stream_latest_version" % (n_pl, n_fb), vb)
    # the partition key mismatch is an error in all four arms
    mism = [s for i, j, s in vb.assigns() if s["rv"]["k"] == "agg" and s["rv"]["ak"].endswith("EventValidationError::PartitionKeyMismatch")]
    # the check may live in a helper (`ensure_same_partition_key(new, existing)?`): each call to a workspace function that builds the error counts as a site
    for bi, t in vb.calls():
        hb = prog.bodies.get(vb.callee(t) or vb.callee_decl(t) or "")
        if hb is not None and hb.path != vb.path and any(s2["rv"]["k"] == "agg" and s2["rv"]["ak"].endswith("EventValidationError::PartitionKeyMismatch") for _, _, s2 in hb.assigns()):
            mism.append({"line": t.get("line")})
    if len(mism) >= 4:
        chk.ok("R2.5", "partition key mismatch is rejected in all four expectation arms (%d sites)" % len(mism), vb.where())
    else:
        chk.fail("R2.5", vb.path, "key-mismatch-arms", "only %d of the four expectation arms reject a partition key mismatch" % len(mism), vb)
    return {}


def late_bookkeeping(chk, prog, hw, ev, ae, ac, rule):
    """pending_indexes / unflushed_events are only touched after the transaction's last fallible append (C02 R2.2, C16 R16.5)"""
    for fname in ("pending_indexes", "unflushed_events"):
        sites = []
        for i, j, s in field_stores(hw, fname, "WriterSet"):
            sites.append((i, s["line"]))
        for bi, t in hw.calls():
            c = hw.callee_decl(t) or ""
            if c.rsplit("::", 1)[-1] in ("extend", "push", "append", "insert") and t["args"]:
                recv = ev.operand(t["args"][0], (bi, "T"))
                if has_field(recv, fname, "WriterSet"):
                    sites.append((bi, t["line"]))
        if not sites:
            chk.fail(rule, WS + "handle_write", "no-update:" + fname, "handle_write no longer updates %s" % fname, hw)
        for bi, line in sites:
            after = hw.reach_after([bi])
            if any(x[0] in after for x in ae + ac):
                chk.fail(rule, WS + "handle_write", "early-update:" + fname, "%s is updated before the transaction's last record is appended: a failing append leaves writer state changed" % fname, hw, line)
            else:
                chk.ok(rule, "%s updated after the last fallible append" % fname, hw.where(line))


def newest_first(chk, prog, rule, lookups, floor):
    """the latest-version / latest-sequence lookups walk the sealed segments in descending order (C02 R2.3, C05 R5.5)"""
    n_rev = 0
    for path in lookups:
        fam = prog.family(path)
        revs = 0
        finds = 0
        for b in fam:
            chk.analysed(b.path)
            for bi, t in b.calls():
                c = b.callee_decl(t) or ""
                if c.endswith("Iterator::rev"):
                    revs += 1
                if c.endswith("Iterator::find_map") or c.endswith("Iterator::find") or c.endswith("Iterator::next"):
                    finds += 1
        if revs >= 1 and finds >= 1:
            n_rev += 1
            chk.ok(rule, "%s searches the segments newest first" % path.split("::")[-1], fam[0].where())
        else:
            chk.fail(rule, path, "oldest-first", "the lookup no longer walks the sealed segments in descending order (rev=%d): an old version of a stream/partition shadows the latest one" % revs, fam[0])
    chk.floor(rule, n_rev, floor)
