"""C09 - subscriptions deliver confirmed events in order, once, without gaps (R9.1-R9.5)."""
from ..facts import Program, Inconclusive, op_place
from ..flow import Ev, walk, resolve_upvars, show, strip
from ..gate import comparisons, switch_on, edge_dominates, linear, SWAP
from . import c07
from ..util import try_continue_block, ok_return_blocks

SUB = "sierradb_cluster::subscription::Subscription::"
SEND_RECORD = SUB + "send_record"
CAN_READ = c07.CAN_READ
MATCHER = "sierradb_cluster::subscription::SubscriptionMatcher::"
HISTORY = ("read_partition_history", "read_partitions_history", "read_stream_history")


def call_blocks(body, name, exact=True):
    out = []
    for bi, t in body.calls():
        c = body.callee_decl(t) or ""
        if (exact and c == name) or (not exact and name in c):
            out.append((bi, t))
    return out


def can_read_gates(prog, body, ev):
    """non-debug can_read calls that are switched on: (call block, true succ, false succ, arg term, line)"""
    out = []
    for bi, t in body.calls():
        if body.callee(t) != CAN_READ or "debug_assert" in t.get("exp", ""):
            continue
        if t.get("target") is None:
            continue
        sw = switch_on(body, t["target"], t["dest"]["l"])
        if sw is None:
            continue
        arg = resolve_upvars(prog, ev.operand(t["args"][1], (bi, "T")), body)
        out.append((t["target"], sw[0], sw[1], arg, t["line"]))
    return out


def run(chk, facts_dir, tier):
    prog = Program(facts_dir, crates=["sierradb_cluster-lib"])
    cls = c07.make_cls(prog)
    chk.rule("R9.1", "GATED: every send_record in the three history readers is dominated by the true edge of "
                     "AtomicWatermark::can_read(first partition sequence of the commit) (debug_assert copies are ignored)")
    chk.rule("R9.2", "GATE-STOP: from the false edge of that gate no path reaches next_batch again unless the iterator "
                     "was removed from the iterator map (otherwise a later batch can be delivered after a skipped one)")
    chk.rule("R9.3", "WINDOW: SubscriptionEvent::Record is constructed only in send_record; there the send is dominated by "
                     "wait_for(|ack| gap <= window_size) with gap = cursor - ack (cursor+1 before the first ack) and is followed by cursor += 1")
    chk.rule("R9.4", "LIVE: in run, send_record is dominated by the false edge of has_seen and followed by update_state with that "
                     "record's five fields; has_seen compares with `<` only and update_state stores `+ 1` only")
    chk.rule("R9.6", "HISTORY CURSOR: in the history readers every store to the resume cursor (`*from_sequence` / `*from_version`) is `x + 1` where x is the partition sequence / "
                     "stream version of the event handed to the send_record that precedes it, and every send_record is followed by such a store before the next event is taken; "
                     "the live filter has_seen starts at this cursor, so a cursor left inside a delivered transaction delivers its tail twice")
    chk.rule("R9.7", "ONE RECEIVER ACROSS THE HAND-OVER: the broadcast receiver a subscription listens on in its live phase is the one that was subscribed when the subscription was "
                     "created, before the history read: no function of Subscription stores to `broadcast_rx` or calls resubscribe / subscribe on the event channel. Events confirmed "
                     "while the history is replayed exist only in that receiver's buffer (the history iterators read a snapshot)")
    chk.rule("R9.5", "WHO-MAY send on the event broadcast channel: the confirmation actor's gated loops (C07 R7.2) and "
                     "SubscriptionManager::broadcast (which has no caller)")
    chk.not_decided += ["the hand-over race between history and live phases and broadcast lag (schedules)",
                        "that the iterators themselves return gapless, ordered commits (C03)"]
    c07.check_can_read_reference(chk, prog)

    # ---------------- R9.1 / R9.2
    n_send = 0
    for name in HISTORY:
        root = SUB + name
        fam = prog.family(root)
        found = 0
        for b in fam:
            chk.analysed(b.path)
            ev = Ev(prog, b)
            gates = can_read_gates(prog, b, ev)
            for bi, t in call_blocks(b, SEND_RECORD):
                found += 1
                n_send += 1
                ok = False
                seen = []
                for (gb, tr, fa, arg, line) in gates:
                    dom = edge_dominates(b, gb, tr, bi)
                    isx = cls.has_x(arg)
                    seen.append("can_read(%s) L%d%s%s" % (show(arg)[:80], line, " dominates" if dom else "", "" if isx else " [arg is not a partition sequence]"))
                    if dom and isx:
                        ok = True
                if ok:
                    chk.ok("R9.1", "%s: send_record gated by can_read" % name, b.where(t["line"]))
                else:
                    chk.fail("R9.1", root, "send_record/can_read", "send_record is not dominated by the true edge of can_read(partition sequence); gates seen: %s" % seen, b, t["line"])
            # gate-stop
            nb = [bi for bi, t in call_blocks(b, "::next_batch", exact=False)]
            rm = frozenset(bi for bi, t in b.calls() if (b.callee_decl(t) or "").endswith("BTreeMap::<K, V, A>::remove"))
            for (gb, tr, fa, arg, line) in gates:
                if not cls.has_x(arg):
                    continue
                r = b.reach_from([fa], avoid=rm)
                bad = [x for x in nb if x in r]
                if bad:
                    chk.fail("R9.2", root, "gate-stop", "after a commit fails the watermark gate (L%d) the same iterator can be polled again "
                             "(next_batch at L%s) without having been dropped: events skipped here are never delivered if the watermark advances" %
                             (line, [b.term(x)["line"] for x in bad]), b, line)
                else:
                    chk.ok("R9.2", "%s: failed gate at L%d leads to no further next_batch on the iterator" % (name, line), b.where(line))
        if found == 0:
            raise Inconclusive("%s: no send_record call found" % name)

    # ---------------- R9.6 history cursor
    n_cur = 0
    for name in HISTORY:
        root = SUB + name
        for b in prog.family(root):
            sends = call_blocks(b, SEND_RECORD)
            if not sends:
                continue
            ev = Ev(prog, b)
            stores = []
            for i, j, st in b.assigns():
                pr = st["lhs"]["p"]
                if not pr or any(e != "*" for e in pr):
                    continue
                ty = b.local_ty(st["lhs"]["l"])
                if not (ty.replace(" ", "").endswith("mutu64") and ty.strip().startswith("&")):
                    continue
                stores.append((i, j, st))
            if not stores:
                chk.fail("R9.6", root, "cursor-never-stored", "the history reader sends records but never advances its resume cursor", b, sends[0][1]["line"])
                continue
            sent_terms = []
            for sb_, stt in sends:
                sent_terms.append((sb_, strip(ev.operand(stt["args"][1], (sb_, "T")))))
            for i, j, st in stores:
                n_cur += 1
                val = ev._rvalue(st["rv"], (i, j), 0) if hasattr(ev, "_rvalue") else None
                base, off = linear(val)
                base = strip(base)
                okf = base[0] == "field" and base[2] in ("partition_sequence", "stream_version") and "EventRecord" in str(base[3])
                dom = [sb_ for sb_, term in sent_terms if b.dominates(sb_, i)]
                same = okf and any(strip(base[1]) == term for sb_, term in sent_terms if sb_ in dom)
                if okf and off == 1 and same:
                    chk.ok("R9.6", "%s: cursor = sent event.%s + 1" % (name, base[2]), b.where(st["line"]))
                else:
                    chk.fail("R9.6", root, "cursor-value", "the resume cursor is set to `%s%+d`, not to the %s of the event just handed to send_record plus one: after a multi-event "
                             "transaction the cursor points inside (or past) what was delivered and the live phase repeats or skips events" %
                             (show(base)[:70], off, "sequence/version"), b, st["line"])
            # every send_record is followed by a cursor store before the loop takes the next event or the function returns Ok
            store_blocks = frozenset(i for i, j, st in stores)
            nexts = [bi for bi, t in b.calls() if (b.callee_decl(t) or "").endswith("Iterator::next") or "next_batch" in (b.callee_decl(t) or "")]
            for sb_, stt in sends:
                cont = try_continue_block(b, sb_)
                start = cont if cont is not None else stt.get("target")
                r = b.reach_from([start], avoid=store_blocks)
                bad = [x for x in nexts if x in r]
                okret = [ob for ob, _ in ok_return_blocks(b) if ob in r]
                if bad or okret:
                    chk.fail("R9.6", root, "cursor-skipped", "after send_record succeeds the next event can be taken (or Ok returned) without the resume cursor having been advanced", b, stt["line"])
                else:
                    chk.ok("R9.6", "%s: every delivered record advances the cursor" % name, b.where(stt["line"]))
    chk.floor("R9.6", n_cur, 3)

    # ---------------- R9.7 the receiver is never replaced
    n97 = 0
    for p97, b97 in sorted(prog.bodies.items()):
        root97 = b97.root or b97.path
        if not root97.startswith(SUB):
            continue
        n97 += 1
        from ..util import field_stores as _fs
        st97 = [x for x in _fs(b97, "broadcast_rx", "Subscription")]
        rs97 = [t for bi, t in b97.calls() if (b97.callee_decl(t) or "").endswith("broadcast::Receiver::<T>::resubscribe") or (b97.callee_decl(t) or "").endswith("broadcast::Sender::<T>::subscribe")]
        if st97 or rs97:
            line = (st97[0][2]["line"] if st97 else rs97[0]["line"])
            chk.fail("R9.7", root97, "receiver-replaced", "the subscription replaces its broadcast receiver (%s): everything broadcast since it subscribed - in particular events confirmed "
                     "during the history replay - is dropped, and the next live event arrives after a gap" % ("store to broadcast_rx" if st97 else "resubscribe/subscribe"), b97, line)
    if n97:
        chk.ok("R9.7", "no function of Subscription replaces the broadcast receiver (%d bodies)" % n97, "")
    chk.floor("R9.7", n97, 5)

    # every caller of send_record is one of the analysed functions or `run`
    allowed_callers = {SUB + n for n in HISTORY} | {SUB + "run"}
    for b, bi in prog.callers().get(SEND_RECORD, []):
        r = b.root or b.path
        if r not in allowed_callers:
            chk.fail("R9.1", r, "send_record/caller", "send_record is called from a function that is not a gated history reader or the live loop", b, b.term(bi)["line"])
        else:
            chk.ok("R9.1", "caller of send_record is analysed: %s" % r.split("::")[-1], b.where(b.term(bi)["line"]))

    # ---------------- R9.3
    rec_sites = []
    for b in prog.bodies.values():
        for i, j, s in b.assigns():
            if s["rv"]["k"] == "agg" and s["rv"]["ak"] == "adt:sierradb_cluster::subscription::SubscriptionEvent::Record":
                rec_sites.append((b, i, s))
    if not rec_sites:
        raise Inconclusive("no construction of SubscriptionEvent::Record found")
    for b, i, s in rec_sites:
        if (b.root or b.path) != SEND_RECORD:
            chk.fail("R9.3", b.root or b.path, "record-constructor", "SubscriptionEvent::Record is constructed outside send_record: the delivery window is bypassed", b, s["line"])
        else:
            chk.ok("R9.3", "SubscriptionEvent::Record constructed in send_record", b.where(s["line"]))
    for b in prog.family(SEND_RECORD):
        chk.analysed(b.path)
    sb = prog.body(SEND_RECORD + "::{closure#0}")
    ev = Ev(prog, sb)
    waits = call_blocks(sb, "tokio::sync::watch::Receiver::<T>::wait_for")
    sends = call_blocks(sb, "tokio::sync::mpsc::UnboundedSender::<T>::send")
    if len(waits) != 1 or len(sends) != 1:
        raise Inconclusive("send_record: expected one wait_for and one send, found %d/%d" % (len(waits), len(sends)))
    (wb, wt), (s_b, st) = waits[0], sends[0]
    if sb.dominates(wb, s_b):
        chk.ok("R9.3", "send dominated by wait_for", sb.where(st["line"]))
    else:
        chk.fail("R9.3", SEND_RECORD, "send/wait_for", "the record is sent without first waiting for the acknowledgement window", sb, st["line"])
    # the wait_for future must be awaited and its error propagated before the send: a Try::branch between them
    tries = [bi for bi, t in sb.calls() if (sb.callee_decl(t) or "").endswith("Try::branch")]
    if any(sb.dominates(wb, x) and sb.dominates(x, s_b) for x in tries):
        chk.ok("R9.3", "wait_for result is awaited and checked (`?`) before the send", sb.where(wt["line"]))
    else:
        chk.fail("R9.3", SEND_RECORD, "send/wait_for-checked", "the result of wait_for is not checked before the send", sb, wt["line"])
    # closure predicate
    carg = strip(ev.operand(wt["args"][1], (wb, "T")))
    okp = False
    desc = "?"
    if carg[0] == "agg" and carg[1].startswith("closure:"):
        ret = strip(cls.closure_return(carg[1].split(":", 1)[1]))
        desc = show(ret)
        if ret[0] == "bin" and ret[1] == "Le":
            rhs = strip(ret[3])
            lhs = strip(ret[2])
            rb_, roff = linear(rhs)
            rhs_ok = roff == 0 and _is_field(rb_, "window_size")
            alts = lhs[1] if lhs[0] == "phi" else (lhs,)
            kinds = set()
            for a in alts:
                base, off = linear(a)
                if base[0] == "call" and base[1].endswith("::saturating_sub") and _is_field(base[2][0], "cursor") and off == 0:
                    kinds.add("sub")
                elif _is_field(base, "cursor") and off == 1:
                    kinds.add("first")
                else:
                    kinds.add("other:" + show(a))
            okp = rhs_ok and kinds == {"sub", "first"}
    if okp:
        chk.ok("R9.3", "window predicate is `gap <= window_size`, gap = cursor.saturating_sub(ack) | cursor + 1", sb.where(wt["line"]))
    else:
        chk.fail("R9.3", SEND_RECORD, "window-predicate", "the wait_for predicate is not `cursor - last_ack <= window_size` (cursor+1 before the first ack): %s" % desc, sb, wt["line"])
    # cursor += 1 after the send
    incs = []
    for i, j, s in sb.assigns():
        fs = [e for e in s["lhs"]["p"] if isinstance(e, dict) and "f" in e]
        if fs and fs[-1]["n"] == "cursor":
            term = ev._rvalue(s["rv"], (i, j), 0)
            base, off = linear(term)
            incs.append((i, off, _is_field(base, "cursor"), s["line"]))
    if any(off == 1 and isc and sb.dominates(s_b, i) for (i, off, isc, line) in incs) and all(off == 1 and isc for (i, off, isc, line) in incs):
        chk.ok("R9.3", "cursor += 1 after the send", sb.where(incs[0][3]))
    else:
        chk.fail("R9.3", SEND_RECORD, "cursor-increment", "the cursor is not advanced by exactly one after each record sent: %s" % incs, sb, st["line"])

    # ---------------- R9.4 live path
    rb = prog.body(SUB + "run::{closure#0}")
    chk.analysed(rb.path)
    rev = Ev(prog, rb)
    hs = call_blocks(rb, MATCHER + "has_seen")
    srs = call_blocks(rb, SEND_RECORD)
    us = call_blocks(rb, MATCHER + "update_state")
    if len(srs) == 1 and (len(hs) == 0 or len(us) == 0):
        chk.fail("R9.4", SUB + "run", "live/filter-missing", "the live loop sends records without %s: events are delivered twice or the matcher never advances" %
                 ("has_seen" if not hs else "update_state"), rb, srs[0][1]["line"])
        return {}
    if len(hs) != 1 or len(srs) != 1 or len(us) != 1:
        raise Inconclusive("run: expected one has_seen/send_record/update_state, found %d/%d/%d" % (len(hs), len(srs), len(us)))
    hb, ht = hs[0]
    sw = switch_on(rb, ht["target"], ht["dest"]["l"])
    if sw and edge_dominates(rb, ht["target"], sw[1], srs[0][0]):
        chk.ok("R9.4", "run: send_record only on the false edge of has_seen", rb.where(srs[0][1]["line"]))
    else:
        chk.fail("R9.4", SUB + "run", "send/has_seen", "live events are sent without the has_seen filter (duplicates of history events)", rb, srs[0][1]["line"])
    ub, ut = us[0]
    if rb.dominates(srs[0][0], ub):
        names = ["partition_id", "partition_sequence", "partition_key", "stream_id", "stream_version"]
        bad = []
        for n, a in zip(names, ut["args"][1:]):
            term = rev.operand(a, (ub, "T"))
            if not any(isinstance(x, tuple) and x and x[0] == "field" and x[2] == n and "EventRecord" in x[3] for x in walk(term)):
                bad.append("%s <- %s" % (n, show(term)))
        if bad:
            chk.fail("R9.4", SUB + "run", "update_state/args", "update_state is not fed with the delivered record's fields: %s" % bad, rb, ut["line"])
        else:
            chk.ok("R9.4", "run: update_state(record fields) after send_record", rb.where(ut["line"]))
    else:
        chk.fail("R9.4", SUB + "run", "update_state/order", "update_state does not follow send_record", rb, ut["line"])
    # no path from the Ok(record) arm back to recv that sends without updating: every path from send_record's success to the next recv passes update_state
    recvs = [bi for bi, t in call_blocks(rb, "broadcast::Receiver::<T>::recv", exact=False)]
    # has_seen comparisons
    hb_body = prog.body(MATCHER + "has_seen")
    chk.analysed(hb_body.path)
    n_cmp = 0
    for c in comparisons(prog, hb_body):
        a, b2 = c["a"], c["b"]
        fa = _rec_field(a)
        fb = _rec_field(b2)
        if fa and not fb:
            op = c["op"]
        elif fb and not fa:
            op = SWAP[c["op"]]
        else:
            continue
        if (fa or fb) not in ("partition_sequence", "stream_version"):
            continue
        n_cmp += 1
        if op == "Lt":
            chk.ok("R9.4", "has_seen: record.%s < from" % (fa or fb), hb_body.where(c["line"]))
        else:
            chk.fail("R9.4", hb_body.path, "has_seen/%s" % (fa or fb), "has_seen compares the record's %s with %s; only `record < from` marks an event as seen "
                     "(`<=` drops the next expected event, `>` inverts the filter)" % (fa or fb, op), hb_body, c["line"])
    chk.floor("R9.4-has_seen", n_cmp, 4)
    # update_state / update_from_sequences: +1 only
    n_inc = 0
    for fn in ("update_state", "update_from_sequences"):
        ub2 = prog.body(MATCHER + fn)
        chk.analysed(ub2.path)
        n_inc += _plus_one_only(chk, ub2, ("partition_sequence", "stream_version"))
    chk.floor("R9.4-update", n_inc, 4)

    # ---------------- R9.5
    allowed = {
        "sierradb_cluster::confirmation::actor::ConfirmationActor::broadcast_confirmed_events",
        "sierradb_cluster::<confirmation::actor::ConfirmationActor as kameo::message::Message<confirmation::actor::UpdateConfirmationWithBroadcast>>::handle",
        "sierradb_cluster::<confirmation::actor::ConfirmationActor as kameo::message::Message<confirmation::actor::TriggerBroadcast>>::handle",
        "sierradb_cluster::subscription::SubscriptionManager::broadcast",
    }
    n = 0
    for b in prog.bodies.values():
        for bi, t in call_blocks(b, "tokio::sync::broadcast::Sender::<T>::send"):
            n += 1
            r = b.root or b.path
            if r in allowed:
                chk.ok("R9.5", "broadcast send in %s" % r.split("::")[-1], b.where(t["line"]))
            else:
                chk.fail("R9.5", r, "broadcast-sender", "a new sender on the event broadcast channel: events reach subscribers without the confirmation actor's watermark gate", b, t["line"])
    chk.floor("R9.5", n, 4)
    # each live sender is gated by the watermark (same rule instances as C07 R7.2)
    c07.check_actor_broadcast(chk, prog, cls, "R9.5")
    mgr = "sierradb_cluster::subscription::SubscriptionManager::broadcast"
    callers = prog.callers().get(mgr, [])
    if callers:
        b, bi = callers[0]
        chk.fail("R9.5", b.root or b.path, "manager-broadcast-caller", "SubscriptionManager::broadcast (ungated) now has a caller", b, b.term(bi)["line"])
    else:
        chk.ok("R9.5", "SubscriptionManager::broadcast has no caller", "")
    chk.floor("R9.1", n_send, 3)
    return {}


def _is_field(t, name):
    t = strip(t)
    return t[0] in ("field", "upvar") and (t[2] == name if t[0] == "field" else t[1] == name or t[1].endswith("." + name))


def _rec_field(t):
    t = strip(t)
    if t[0] == "field" and "EventRecord" in t[3]:
        return t[2]
    return None


def _plus_one_only(chk, body, params):
    """every use of the named parameters is `p + 1`, a plain copy, or a pass-through to update_from_sequences"""
    plocals = {i for i in range(1, body.argc + 1) if body.local_name(i) in params}
    if not plocals:
        raise Inconclusive("%s: parameters %s not found" % (body.path, params))
    copies = set(plocals)
    changed = True
    while changed:
        changed = False
        for i, j, s in body.assigns():
            rv = s["rv"]
            if rv["k"] == "use" and not s["lhs"]["p"]:
                p = op_place(rv["op"])
                if p and not p["p"] and p["l"] in copies and s["lhs"]["l"] not in copies:
                    copies.add(s["lhs"]["l"])
                    changed = True
    n = 0

    def uses(op):
        p = op_place(op)
        return p is not None and not p["p"] and p["l"] in copies

    for i, j, s in body.assigns():
        rv = s["rv"]
        if rv["k"] == "use":
            continue
        if s.get("exp", "").startswith("macro:"):
            continue
        ops = [rv.get("op"), rv.get("a"), rv.get("b")] + list(rv.get("ops", []))
        if not any(o is not None and uses(o) for o in ops):
            continue
        if rv["k"] == "bin" and rv["o"] in ("AddWithOverflow", "Add") and uses(rv["a"]) and rv["b"].get("v") == "1":
            n += 1
            chk.ok("R9.4", "%s: stores %s + 1" % (body.path.split("::")[-1], body.local_name(op_place(rv["a"])["l"])), body.where(s["line"]))
        else:
            chk.fail("R9.4", body.path, "update/not-plus-one", "the matcher state is updated from the delivered position by something other than `+ 1`", body, s["line"])
    for bi, t in body.calls():
        if any(uses(a) for a in t["args"]):
            c = body.callee_decl(t) or ""
            if c.endswith("update_from_sequences") or t.get("exp", "").startswith("macro:"):
                continue
            chk.fail("R9.4", body.path, "update/raw-use", "the delivered position is passed to %s without `+ 1`" % c, body, t["line"])
    return n
