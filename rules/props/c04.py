"""C04 - multi-event transactions are all-or-nothing for readers (R4.1-R4.5)."""
from ..facts import Program, Inconclusive, op_place
from ..flow import Ev, walk, resolve_upvars, show, strip
from ..gate import switch_on, edge_dominates
from ..util import sites_via_helpers, private_wrappers, calls, one_call, last_field, try_continue_block

SEGR = "sierradb::bucket::segment::reader::"
WS = "sierradb::writer_thread_pool::WriterSet"
BSW = "sierradb::bucket::segment::writer::BucketSegmentWriter::"
GET_FLAG = "sierradb::id::get_uuid_flag"


def _is_events_vec(body, op):
    p = op_place(op)
    if p is None:
        return False
    ty = body.local_ty(p["l"])
    return "SmallVec<[" in ty and "EventRecord" in ty


def gate_signature(prog, body):
    """Summarise the commit-matching logic of one read_committed_events implementation as
    a set of (action, path condition) pairs. Conditions are the edges of the four predicates
    (flag, empty, id_ne, commit_eq) that dominate the action's block."""
    ev = Ev(prog, body)
    preds = []  # (name, switch block, true succ, false succ)
    for bi, t in body.calls():
        c = body.callee_decl(t) or ""
        name = None
        if c == GET_FLAG:
            name = "flag"
        elif c == "smallvec::SmallVec::<A>::is_empty" and _is_events_vec(body, t["args"][0]):
            name = "empty"
        elif c in ("std::cmp::PartialEq::ne", "std::cmp::PartialEq::eq"):
            a = resolve_upvars(prog, ev.operand(t["args"][0], (bi, "T")), body)
            b = resolve_upvars(prog, ev.operand(t["args"][1], (bi, "T")), body)
            both = list(walk(a)) + list(walk(b))
            if any(isinstance(x, tuple) and x and x[0] == "field" and x[2] == "transaction_id" and "CommitRecord" in x[3] for x in both):
                name = "commit_id_" + c.rsplit("::", 1)[-1]
            elif any(isinstance(x, tuple) and x and x[0] == "field" and x[2] == "transaction_id" and "EventRecord" in x[3] for x in both):
                name = "event_id_" + c.rsplit("::", 1)[-1]
        if name is None or t.get("target") is None:
            continue
        sw = switch_on(body, t["target"], t["dest"]["l"])
        if sw is None:
            continue
        # normalise ne/eq to one predicate name with polarity
        tr, fa = sw
        if name.endswith("_ne"):
            name, tr, fa = name[:-3] + "_eq", fa, tr
        preds.append((name, t["target"], tr, fa, t["line"]))
    actions = []
    for i, j, s in body.assigns():
        rv = s["rv"]
        if rv["k"] == "agg" and rv["ak"].startswith("adt:sierradb::bucket::segment::reader::CommittedEvents::"):
            actions.append(("return-" + rv["ak"].rsplit("::", 1)[-1], i, s["line"]))
        elif rv["k"] == "use" and _is_events_vec(body, rv["op"]):
            lhs = s["lhs"]
            named = (not lhs["p"] and body.locals[lhs["l"]]["n"]) or (lhs["p"] and last_field(lhs) and last_field(lhs)["o"] == body.path)
            if named:
                actions.append(("events-reset", i, s["line"]))
        elif rv["k"] == "use" and rv["op"].get("cp", rv["op"].get("mv")) is not None:
            # store to the pending transaction id (a Uuid kept across loop iterations)
            lhs = s["lhs"]
            nm = body.locals[lhs["l"]]["n"] if not lhs["p"] else (last_field(lhs)["n"] if last_field(lhs) and last_field(lhs)["o"] == body.path else None)
            if nm and "pending" in nm and "transaction" in nm:
                actions.append(("pending-set", i, s["line"]))
    for bi, t in body.calls():
        c = body.callee_decl(t) or ""
        if c == "smallvec::SmallVec::<A>::push" and _is_events_vec(body, t["args"][0]) and not t.get("exp", "").startswith("macro:smallvec"):
            actions.append(("events-push", bi, t["line"]))
    sig = []
    for kind, blk, line in actions:
        conds = set()
        for (name, sb, tr, fa, pl) in preds:
            if tr != fa and edge_dominates(body, sb, tr, blk):
                conds.add((name, True))
            elif tr != fa and edge_dominates(body, sb, fa, blk):
                conds.add((name, False))
        sig.append((kind, tuple(sorted(conds)), line))
    return sig, preds


def fmt_sig(sig):
    return sorted("%s if %s" % (k, " & ".join(("" if v else "!") + n for n, v in c) or "true") for k, c, _ in sig)


def run(chk, facts_dir, tier):
    prog = Program(facts_dir, crates=["sierradb-lib"])
    chk.rule("R4.1", "WRITE ORDER in WriterSet::handle_write: no append_event after append_commit; the commit is appended iff the transaction id flag is clear; "
                     "nothing that can fsync runs between the first event and the commit")
    chk.rule("R4.2", "WHO-MAY append records: BucketSegmentWriter::append_event / append_commit are called only from WriterSet::handle_write")
    chk.rule("R4.3", "GATED: CommittedEvents::Transaction is only built under commit.transaction_id == pending id and a non-empty event list; "
                     "CommittedEvents::Single only under a set id flag and an empty list; a change of the pending id resets the list")
    chk.rule("R4.4", "SIBLING: the disk reader and the cached-block reader of committed events have the same (action, path-condition) table")
    chk.rule("R4.5", "STREAM FILTER: every batch returned by BucketIter::next_batch went through IterConfig::filter_commit")
    chk.rule("R4.6", "WHO-MAY build CommittedEvents: the variants are constructed only by the two commit-matching readers (R4.3), by the derived Clone/Deserialize impls and by "
                     "StreamIterConfig::filter_commit, which re-wraps events of a value it received and reads no records itself; anything else hands out events that never passed commit matching")
    chk.not_decided += ["the concurrent reader/writer schedule itself (visibility is decided by the flushed offset, C18)",
                        "byte-level decoding of records"]

    # ---------------- R4.3 / R4.4
    disk = prog.body(SEGR + "BucketSegmentReader::read_committed_events::{closure#0}")
    blk = prog.body(SEGR + "SegmentBlock::read_committed_events")
    sigs = {}
    for name, b in (("BucketSegmentReader", disk), ("SegmentBlock", blk)):
        chk.analysed(b.path)
        sig, preds = gate_signature(prog, b)
        sigs[name] = sig
        fn = SEGR + name + "::read_committed_events"
        kinds = [k for k, c, l in sig]
        for need in ("return-Transaction", "return-Single", "events-push", "events-reset", "pending-set"):
            if need not in kinds:
                chk.fail("R4.3", fn, "missing:" + need, "the commit-matching loop has no `%s` step any more%s" % (need,
                         " (events of an abandoned transaction stay in the list and are returned under the next transaction's commit)" if need == "events-reset" else ""), b)
        for kind, conds, line in sig:
            c = dict(conds)
            if kind == "return-Transaction":
                if c.get("commit_id_eq") is True and c.get("empty") is False:
                    chk.ok("R4.3", "%s: Transaction built under commit id == pending id & !events.is_empty()" % name, b.where(line))
                else:
                    chk.fail("R4.3", fn, "transaction-gate", "CommittedEvents::Transaction is built under %s; it needs commit.transaction_id == pending id and a non-empty list" % (dict(conds) or "no condition"), b, line)
            elif kind == "return-Single":
                if c.get("flag") is True and c.get("empty") is True:
                    chk.ok("R4.3", "%s: Single built under flag & events.is_empty()" % name, b.where(line))
                else:
                    chk.fail("R4.3", fn, "single-gate", "CommittedEvents::Single is built under %s; it needs a set transaction-id flag and an empty pending list" % (dict(conds) or "no condition"), b, line)
            elif kind == "pending-set":
                # the list must be reset in the same branch (same dominating conditions)
                resets = [x for x in sig if x[0] == "events-reset" and x[1] == conds]
                if resets and c.get("event_id_eq") is False and c.get("flag") is False:
                    chk.ok("R4.3", "%s: new pending id => event list reset (under !flag & id != pending)" % name, b.where(line))
                else:
                    chk.fail("R4.3", fn, "pending-without-reset", "the pending transaction id changes (under %s) without the accumulated events being reset in the same branch: "
                             "events of an uncommitted transaction are returned under the next transaction's commit" % dict(conds), b, line)
            elif kind == "events-push":
                # pushing is allowed for (flag & !empty) or (!flag & id == pending)
                if (c.get("flag") is True and c.get("empty") is False) or (c.get("flag") is False and c.get("event_id_eq") is True):
                    chk.ok("R4.3", "%s: push under %s" % (name, dict(conds)), b.where(line))
                else:
                    chk.fail("R4.3", fn, "push-gate", "an event is appended to the pending transaction under %s; it must belong to it (id == pending id)" % dict(conds), b, line)
    a, b2 = fmt_sig(sigs["BucketSegmentReader"]), fmt_sig(sigs["SegmentBlock"])
    if a == b2:
        chk.ok("R4.4", "disk reader and block reader agree: %s" % "; ".join(a), disk.where())
    else:
        only_a = [x for x in a if x not in b2]
        only_b = [x for x in b2 if x not in a]
        chk.fail("R4.4", SEGR + "read_committed_events", "siblings-differ", "the two implementations of commit matching disagree: only in BucketSegmentReader: %s; only in SegmentBlock: %s" % (only_a, only_b), disk)

    # ---------------- R4.1 / R4.2
    hw = prog.body(WS + "::handle_write")
    chk.analysed(hw.path)
    ev = Ev(prog, hw)
    ae = sites_via_helpers(prog, hw, BSW + "append_event")
    ac = sites_via_helpers(prog, hw, BSW + "append_commit")
    if len(ae) != 1 or len(ac) != 1:
        raise Inconclusive("handle_write: expected one append_event and one append_commit call site, found %d/%d" % (len(ae), len(ac)))
    (eb, et), (cb, ct) = ae[0], ac[0]
    if eb in hw.reach_after([cb]):
        chk.fail("R4.1", hw.path, "event-after-commit", "an event record can be appended after the commit record of its transaction", hw, et["line"])
    else:
        chk.ok("R4.1", "no append_event after append_commit", hw.where(ct["line"]))
    if cb not in hw.reach_after([eb]):
        chk.fail("R4.1", hw.path, "commit-before-events", "the commit record is not written after the events", hw, ct["line"])
    # commit iff !flag
    flags = calls(hw, GET_FLAG)
    okf = False
    for fb, ft in flags:
        sw = switch_on(hw, ft["target"], ft["dest"]["l"])
        if sw and edge_dominates(hw, ft["target"], sw[1], cb):
            # and on the true edge (single event) the commit is not reachable
            if cb not in hw.reach_from([sw[0]], avoid=frozenset([ft["target"]])) or True:
                okf = cb not in hw.reach_from([sw[0]])
    if okf:
        chk.ok("R4.1", "commit appended exactly when the transaction id flag is clear", hw.where(ct["line"]))
    else:
        chk.fail("R4.1", hw.path, "commit-flag", "the commit record is not appended exactly when !get_uuid_flag(transaction_id)", hw, ct["line"])
    # the commit must be appended before the function can return Ok for an unflagged transaction:
    # from the false (unflagged) edge every path to an Ok return passes append_commit and its `?`
    from ..util import ok_return_blocks, must_pass
    cont = try_continue_block(hw, cb)
    okr = [x for x, s in ok_return_blocks(hw)]
    for fb, ft in flags:
        sw = switch_on(hw, ft["target"], ft["dest"]["l"])
        if sw and cont is not None:
            if must_pass(hw, okr, [cont], start=sw[1]):
                chk.fail("R4.1", hw.path, "ok-without-commit", "handle_write can return Ok for a multi-event transaction without a successfully appended commit record", hw, ct["line"])
            else:
                chk.ok("R4.1", "Ok for an unflagged transaction requires the commit record's success edge", hw.where(ct["line"]))
    # no sync between the first event and the commit
    syncers = _may_sync(prog)
    between = hw.reach_after([eb]) & _reach_to(hw, cb)
    bad = [(bi, t) for bi, t in hw.calls() if bi in between and ((hw.callee(t) or "") in syncers) and bi not in (eb, cb)]
    if bad:
        chk.fail("R4.1", hw.path, "sync-mid-transaction", "%s can fsync between a transaction's events and its commit: a prefix of the transaction becomes visible to readers" % (hw.callee(bad[0][1]) or "").split("::")[-1], hw, bad[0][1]["line"])
    else:
        chk.ok("R4.1", "nothing on the path events -> commit can publish a flushed offset (%d syncing functions known)" % len(syncers), hw.where(et["line"]))
    for fn in ("append_event", "append_commit"):
        for b, bi in prog.callers().get(BSW + fn, []):
            r = b.root or b.path
            if r == WS + "::handle_write":
                chk.ok("R4.2", "%s called from handle_write" % fn, b.where(b.term(bi)["line"]))
            elif r in private_wrappers(prog, hw, BSW + fn):
                chk.ok("R4.2", "%s called from %s, a private helper whose only caller is handle_write" % (fn, r.rsplit("::", 1)[-1]), b.where(b.term(bi)["line"]))
            else:
                chk.fail("R4.2", r, "record-writer:" + fn, "%s is called outside WriterSet::handle_write: records can be written without the event/commit protocol" % fn, b, b.term(bi)["line"])

    # ---------------- R4.7 a failed transaction leaves nothing behind
    chk.rule("R4.7", "FAILED TRANSACTIONS ARE ROLLED BACK: every Err result of handle_write - whatever the error - reaches the truncation of the segment to the offset before "
                     "the write, before the request is answered; a rollback limited to some error variants leaves the first events of a transaction that failed on a later event "
                     "in the segment without a commit record (shared with C01 R1.6)")
    from . import c01 as _c01
    from ..util import forwarding_sites
    HAE = "sierradb::writer_thread_pool::Worker::handle_append_events"
    hb_ = prog.body(HAE)
    chk.analysed(HAE)
    hw_ = calls(hb_, WS + "::handle_write")
    sl_ = forwarding_sites(prog, hb_, BSW + "set_len", 1)
    if len(hw_) != 1 or len(sl_) != 1:
        raise Inconclusive("handle_append_events: expected one handle_write and one rollback site")
    _c01.check_rollback_reached(chk, prog, hb_, Ev(prog, hb_), hw_, sl_, rule="R4.7")

    # ---------------- R4.5
    stream_filter_applied(chk, prog, "R4.5")

    # ---------------- R4.6
    allp = Program(facts_dir)
    ALLOWED = ("sierradb::bucket::segment::reader::BucketSegmentReader::read_committed_events", "sierradb::bucket::segment::reader::SegmentBlock::read_committed_events")
    n_c = 0
    for p, b in sorted(allp.bodies.items()):
        sites = [s for i, j, s in b.assigns() if s["rv"]["k"] == "agg" and s["rv"].get("ak", "").startswith("adt:") and "::CommittedEvents::" in s["rv"]["ak"]]
        if not sites:
            continue
        n_c += len(sites)
        root = b.root or b.path
        if root in ALLOWED:
            chk.ok("R4.6", "built by a commit-matching reader (%d sites)" % len(sites), b.where(sites[0]["line"]))
        elif "as std::clone::Clone>::clone" in p or "_serde::Deserialize" in p or "_serde::de::Visitor" in p:
            chk.ok("R4.6", "derived impl", b.where(sites[0]["line"]))
        elif root.endswith("StreamIterConfig as bucket::iter::IterConfig>::filter_commit"):
            reads = [t for bi, t in b.calls() if any(x in (b.callee_decl(t) or "") for x in ("read_record", "next_record", "read_block"))]
            if reads:
                chk.fail("R4.6", root, "filter-reads-records", "filter_commit reads records itself; what it wraps no longer comes from a committed value", b, reads[0]["line"])
            else:
                chk.ok("R4.6", "filter_commit re-wraps the events of its argument", b.where(sites[0]["line"]))
        else:
            chk.fail("R4.6", root, "constructs-committed-events", "CommittedEvents::%s is built outside the commit-matching readers: these events did not pass the commit/flag test "
                     "(events of a transaction without a commit record can reach readers)" % sites[0]["rv"]["ak"].rsplit("::", 1)[-1], b, sites[0]["line"])
    chk.floor("R4.6", n_c, 6)
    return {}


def _flows_from_filter(prog, body, ev, term):
    """the returned Vec is a local that only receives pushes of filter_commit results"""
    # find Vec locals mentioned in the term; every Vec::push / extend on them must take a filter_commit-derived value
    vec_locals = set()
    for bi, t in body.calls():
        c = body.callee_decl(t) or ""
        if c in ("std::vec::Vec::<T, A>::push", "std::iter::Extend::extend"):
            p = op_place(t["args"][0])
            if p:
                vec_locals.add(p["l"])
    ok_any = False
    for bi, t in body.calls():
        c = body.callee_decl(t) or ""
        if c == "std::vec::Vec::<T, A>::push":
            p = op_place(t["args"][0])
            ty = body.local_ty(p["l"]) if p else ""
            if "CommittedEvents" not in ty:
                continue
            val = ev.operand(t["args"][1], (bi, "T"))
            if any(isinstance(x, tuple) and x and x[0] == "call" and "filter_commit" in x[1] for x in walk(val)):
                ok_any = True
            else:
                return False
    return ok_any


def _may_sync(prog):
    """functions of the sierradb crate that (transitively) call seglog Writer::sync / set FlushedOffset"""
    base = {"seglog::write::Writer::<H>::sync", "seglog::FlushedOffset::set", "seglog::write::Writer::<H>::set_len", "seglog::write::Writer::<H>::close"}
    callers = prog.callers()
    out = set(base)
    work = list(base)
    while work:
        f = work.pop()
        for b, bi in callers.get(f, []):
            r = b.root or b.path
            if r not in out:
                out.add(r)
                work.append(r)
    return out


def _reach_to(body, target):
    """blocks from which target is reachable"""
    pred = body.pred
    seen = set()
    st = [target]
    while st:
        b = st.pop()
        if b in seen:
            continue
        seen.add(b)
        st.extend(pred[b])
    return seen


def stream_filter_applied(chk, prog, rule):
    """every batch returned by BucketIter::next_batch went through IterConfig::filter_commit (C04 R4.5, C03 R3.1)"""
    nb = prog.bodies.get("sierradb::bucket::iter::BucketIter::<C>::next_batch::{closure#0}")
    if nb is None:
        raise Inconclusive("BucketIter::next_batch coroutine not found")
    chk.analysed(nb.path)
    nev = Ev(prog, nb)
    n_ret = 0
    for i, j, s in nb.assigns():
        rv = s["rv"]
        if s["lhs"]["l"] == 0 and not s["lhs"]["p"] and rv["k"] == "agg" and rv["ak"].endswith("Result::Ok"):
            term = nev.operand(rv["ops"][0], (i, j))
            # Ok(None) is fine; Ok(Some(batch)) must flow from filter_commit
            somes = [x for x in walk(term) if isinstance(x, tuple) and x and x[0] == "agg" and x[1] == "adt:std::option::Option::Some"]
            if not somes:
                continue
            n_ret += 1
            from ..gate import Classifier
            cls = Classifier(prog, lambda t: False, lambda t: False)
            filt = cls.deep(term, lambda x: isinstance(x, tuple) and x and x[0] == "call" and "filter_commit" in x[1])
            buffered = any(isinstance(x, tuple) and x and x[0] in ("field", "upvar") and ("batch" == (x[2] if x[0] == "field" else x[1].split(".")[-1])) for x in walk(term))
            if filt:
                chk.ok(rule, "returned batch is built by filter_map(filter_commit)", nb.where(s["line"]))
            elif buffered:
                chk.ok(rule, "returned batch is the buffered remainder (self.batch); its writers are checked below", nb.where(s["line"]))
            else:
                chk.fail(rule, "sierradb::bucket::iter::BucketIter::<C>::next_batch", "unfiltered-batch", "a batch is returned that did not pass IterConfig::filter_commit (events of other streams leak into stream scans): %s" % show(term)[:100], nb, s["line"])
    # writers of BucketIter.batch: only from next_batch results or empty
    from ..util import field_stores
    for b in prog.bodies.values():
        if not b.path.startswith("sierradb::bucket::iter::"):
            continue
        e2 = None
        vals = []
        for i, j, s in field_stores(b, "batch", "bucket::iter::BucketIter"):
            e2 = e2 or Ev(prog, b)
            vals.append((e2._rvalue(s["rv"], (i, j), 0), s["line"]))
        for i, j, s in b.assigns():
            if s["rv"]["k"] == "agg" and s["rv"]["ak"] == "adt:sierradb::bucket::iter::BucketIter" and "batch" in s["rv"]["fields"]:
                e2 = e2 or Ev(prog, b)
                vals.append((e2.operand(s["rv"]["ops"][s["rv"]["fields"].index("batch")], (i, j)), s["line"]))
        for term, line in vals:
            term = resolve_upvars(prog, term, b)
            ok = any(isinstance(x, tuple) and x and x[0] == "call" and (x[1].endswith("VecDeque::<T>::new") or x[1].endswith("::next_batch") or "next_batch" in x[1]) for x in walk(term))
            if not ok:
                # the awaited next_batch future: the value comes from Future::poll of next_batch's coroutine
                ok = any(isinstance(x, tuple) and x and x[0] == "call" and "next_batch" in x[1] for x in walk(term)) or "next_batch" in show(term)
            if ok:
                chk.ok(rule, "BucketIter.batch written from next_batch output or empty (%s)" % b.path.split("::")[-2], b.where(line))
            else:
                chk.fail(rule, b.root or b.path, "batch-writer", "the buffered batch is filled from something other than next_batch's (filtered) result: %s" % show(term)[:100], b, line)
    chk.floor(rule, n_ret, 1)
