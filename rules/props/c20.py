"""C20 - every append completes within a bounded time: lost-wakeup freedom only (R20.1-R20.4)."""
from ..facts import Program, Inconclusive, op_place
from ..flow import Ev, walk, show, strip
from ..util import calls, ok_return_blocks, must_pass, field_stores, follow_copies
from . import c01

WTP = "sierradb::writer_thread_pool::"
WS = WTP + "WriterSet::"


def run(chk, facts_dir, tier):
    prog = Program(facts_dir, crates=["sierradb-lib"])
    chk.rule("R20.1", "NO SKIPPED PUBLICATION: every Ok return of WriterSet::sync passes the sync_tx send (waiters are always woken by a sync)")
    chk.rule("R20.2", "SYNC IS DRIVEN: handle_write ends in sync_if_necessary on its success path; handle_flush_poll visits every writer set; the pool spawns the syncer "
                      "that sends FlushPoll unless every write syncs")
    chk.rule("R20.3", "EVERY REQUEST IS ANSWERED: every path of handle_append_events to its return passes a send on reply_tx")
    chk.rule("R20.4", "OLD WAITERS SURVIVE ROLLOVER: rollover syncs the old segment (publishing its final offset on the old channel) before it replaces the channel")
    chk.not_decided += ["a time bound (the rules decide freedom from lost wake-ups, not latency)",
                        "a sync interval of Duration::MAX with large min_sync_bytes would never sync: configuration, stated as an assumption"]
    chk.assume("sync_interval is finite or min_sync_bytes / max_batch_size are reachable (configuration)")
    sb = prog.body(WS + "sync")
    chk.analysed(sb.path)
    ev = Ev(prog, sb)
    sends = [(bi, t) for bi, t in sb.calls() if (sb.callee_decl(t) or "") in c01.WATCH_SENDS]
    oks = [x for x, s in ok_return_blocks(sb)]
    if sends and oks and not must_pass(sb, oks, [x[0] for x in sends]):
        chk.ok("R20.1", "every Ok return of sync passes the publication", sb.where(sends[0][1]["line"]))
    else:
        chk.fail("R20.1", WS + "sync", "sync-without-publication", "WriterSet::sync can return Ok without publishing the synced offset: appends waiting for it are never woken", sb)

    hw = prog.body(WS + "handle_write")
    chk.analysed(hw.path)
    sin = calls(hw, WS + "sync_if_necessary")
    hoks = [x for x, s in ok_return_blocks(hw)]
    if sin and hoks and not must_pass(hw, hoks, [x[0] for x in sin]):
        chk.ok("R20.2", "handle_write's success path ends in sync_if_necessary", hw.where(sin[0][1]["line"]))
    else:
        chk.fail("R20.2", WS + "handle_write", "write-without-sync-check", "a successful write does not run sync_if_necessary: with no later request nothing syncs it except the poller", hw)
    sib = prog.body(WS + "sync_if_necessary")
    if calls(sib, WS + "should_sync") and calls(sib, WS + "sync"):
        chk.ok("R20.2", "sync_if_necessary = should_sync && sync", sib.where())
    else:
        chk.fail("R20.2", sib.path, "sync-if-necessary-shape", "sync_if_necessary no longer calls should_sync and sync", sib)
    ss = prog.body(WS + "should_sync")
    sev = Ev(prog, ss)
    fields = set()
    for i, j, s in ss.assigns():
        pass
    from ..gate import comparisons
    for c in comparisons(prog, ss, sev):
        for side in (c["a"], c["b"]):
            for x in walk(side):
                if isinstance(x, tuple) and x and x[0] == "field":
                    fields.add(x[2])
    if {"sync_interval", "last_synced"} & fields and {"min_sync_bytes", "max_batch_size"} & fields:
        chk.ok("R20.2", "should_sync depends on elapsed time and on size/batch thresholds (%s)" % sorted(fields), ss.where())
    else:
        chk.fail("R20.2", ss.path, "should-sync-inputs", "should_sync lost its time-based trigger: %s" % sorted(fields), ss)
    fp = prog.body(WTP + "Worker::handle_flush_poll")
    by_ref = any(isinstance(a, dict) and "fn" in a and (a.get("res") or a.get("fn") or "").endswith("WriterSet::sync_if_necessary") for bi, t in fp.calls() for a in t["args"])
    in_closure = any(calls(cb_, WS + "sync_if_necessary") for cb_ in prog.children(fp.path))
    if (calls(fp, WS + "sync_if_necessary") or by_ref or in_closure) and any("values_mut" in (fp.callee_decl(t) or "") or "iter_mut" in (fp.callee_decl(t) or "") for bi, t in fp.calls()):
        chk.ok("R20.2", "handle_flush_poll runs sync_if_necessary on every writer set", fp.where())
    else:
        chk.fail("R20.2", fp.path, "flush-poll-shape", "handle_flush_poll does not visit every writer set", fp)
    nb = prog.family(WTP + "WriterThreadPool::new")
    polls = 0
    for b in nb:
        chk.analysed(b.path)
        for i, j, s in b.assigns():
            if s["rv"]["k"] == "agg" and s["rv"]["ak"].endswith("WriteRequest::FlushPoll"):
                polls += 1
    if polls >= 1:
        chk.ok("R20.2", "WriterThreadPool::new spawns a syncer that sends FlushPoll", nb[0].where())
    else:
        chk.fail("R20.2", WTP + "WriterThreadPool::new", "no-syncer", "no FlushPoll is ever sent: idle writer sets are never synced and their waiters never woken", nb[0])

    # R20.5 the poller never forgets a live worker
    chk.rule("R20.5", "THE POLLER KEEPS LIVE WORKERS: the closure that sends FlushPoll removes a worker from the poll list only when its channel is closed or its sender is gone "
                      "(a full queue keeps the worker: it is merely busy)")
    from ..util import variant_edge_dominates, discr_switches
    pcs = [b for b in nb if b.kind == "Closure" and any((b.callee_decl(t) or "").endswith("Sender::<T>::try_send") for bi, t in b.calls())]
    if not pcs:
        chk.fail("R20.5", WTP + "WriterThreadPool::new", "no-poll-closure", "the syncer no longer try_sends FlushPoll to the workers", nb[0])
    for pc in pcs:
        pev = Ev(prog, pc)
        bad = None
        n_false = 0
        for i, j, s in pc.assigns():
            if s["lhs"]["l"] != 0 or s["lhs"]["p"]:
                continue
            rv = s["rv"]
            val = strip(pev._rvalue(rv, (i, j), 0))
            if val[0] == "const" and val[1] in ("const true", "true"):
                continue
            if val[0] == "const" and val[1] in ("const false", "false"):
                n_false += 1
                closed = variant_edge_dominates(pc, pev, i, lambda term: any(isinstance(x, tuple) and x and x[0] == "call" and x[1].endswith("try_send") for x in walk(term)),
                                                "tokio::sync::mpsc::error::TrySendError<", "1")
                gone = variant_edge_dominates(pc, pev, i, lambda term: any(isinstance(x, tuple) and x and x[0] == "call" and x[1].endswith("::upgrade") for x in walk(term)),
                                              "std::option::Option<", "0")
                if not (closed or gone):
                    bad = (s["line"], "`false` is returned outside the Closed arm / the dropped-sender arm")
                continue
            # `!matches!(try_send(..), Err(Closed(_)))`: the negation of a bool that is `true` exactly in the Closed arm
            if val[0] == "un" and val[1] == "Not" and rv["k"] == "un":
                mp = op_place(rv["a"])
                mdefs = [d for d in pc.defs.get(follow_copies(pc, mp["l"]), []) if not d[2]["p"]] if mp is not None and not mp["p"] else []
                consts = [(d, strip(pev._rvalue(d[3], (d[0], d[1]), 0))) for d in mdefs]
                if mdefs and all(c[0] == "const" and c[1] in ("const true", "true", "const false", "false") for _, c in consts):
                    okm = True
                    for d, c in consts:
                        if c[1] in ("const true", "true"):
                            n_false += 1
                            closed = variant_edge_dominates(pc, pev, d[0], lambda term: any(isinstance(x, tuple) and x and x[0] == "call" and x[1].endswith("try_send") for x in walk(term)),
                                                            "tokio::sync::mpsc::error::TrySendError<", "1")
                            gone = variant_edge_dominates(pc, pev, d[0], lambda term: any(isinstance(x, tuple) and x and x[0] == "call" and x[1].endswith("::upgrade") for x in walk(term)),
                                                          "std::option::Option<", "0")
                            if not (closed or gone):
                                okm = False
                    if okm:
                        continue
            bad = (s["line"], "membership is computed from %s" % show(val)[:60])
        # a call writing the return place directly (e.g. Result::is_ok) is a computed membership too
        for bi, t in pc.calls():
            if t["dest"]["l"] == 0 and not t["dest"]["p"]:
                bad = (t["line"], "membership is the result of %s" % (pc.callee_decl(t) or "").rsplit("::", 1)[-1])
        if bad:
            chk.fail("R20.5", WTP + "WriterThreadPool::new", "poller-drops-busy-worker", "the FlushPoll sender is dropped from the poll list although the worker is alive (%s): a worker whose queue "
                     "was full at one tick is never polled again, and an append that does not cross a size threshold waits for its sync forever" % bad[1], pc, bad[0])
        else:
            chk.ok("R20.5", "poll list only loses closed / dropped workers (%d removal sites)" % n_false, pc.where())

    # R20.3
    hb = prog.body(WTP + "Worker::handle_append_events")
    chk.analysed(hb.path)
    rs = calls(hb, "tokio::sync::oneshot::Sender::<T>::send")
    rets = hb.return_blocks()
    missing = must_pass(hb, rets, [x[0] for x in rs])
    if rs and not missing:
        chk.ok("R20.3", "every return of handle_append_events is preceded by a reply (%d reply sites)" % len(rs), hb.where())
    else:
        chk.fail("R20.3", hb.path, "request-unanswered", "handle_append_events can return without answering the request (the client sees NoThreadReply or waits)", hb)

    # R20.4
    rollover_syncs_first(chk, prog, "R20.4")
    # R20.6 the skip decision does not look at the segment writer's offsets
    chk.rule("R20.6", "SKIPPING A SYNC NEEDS NO-WAITER EVIDENCE: the functions that decide whether a poll tick or a write syncs (should_sync, sync_if_necessary, handle_flush_poll) "
                      "decide from WriterSet's own bookkeeping only (byte / event counters, last_synced, the published sync_tx value), which changes together with publications; they never "
                      "consult the segment writer's flushed or write offset: Writer::set_len (the rollback of a failed write) fsyncs and moves the flushed offset without publishing, "
                      "so `flushed == written` does not mean that nobody waits")
    n6 = 0
    for name in ("should_sync", "sync_if_necessary"):
        for b in prog.family(WS + name):
            if b.path != WS + name:
                continue
            n6 += 1
            chk.analysed(b.path)
            bad = [t for bi, t in b.calls() if any((b.callee_decl(t) or "").endswith(x) for x in ("FlushedOffset::load", "::flushed_offset", "BucketSegmentWriter::write_offset", "Writer::<H>::write_offset"))]
            if bad and name == "should_sync":
                chk.fail("R20.6", WS + name, "skip-by-writer-offsets", "the decision to sync looks at the segment writer's offsets (%s): after a rolled-back write the writer looks clean while "
                         "earlier appends still wait for a publication that no poll tick will make" % (b.callee_decl(bad[0]) or "").rsplit("::", 2)[-2:], b, bad[0]["line"])
            elif name == "should_sync":
                chk.ok("R20.6", "should_sync decides from WriterSet bookkeeping only", b.where())
            else:
                # the decision is should_sync's alone: the only branch that dominates the sync() call is the one on should_sync's result
                ss = [(bi, t) for bi, t in b.calls() if (b.callee_decl(t) or "") == WS + "should_sync"]
                sy = [(bi, t) for bi, t in b.calls() if (b.callee_decl(t) or "") == WS + "sync"]
                if len(ss) != 1 or len(sy) != 1:
                    raise Inconclusive("sync_if_necessary: expected one should_sync and one sync call, found %d/%d" % (len(ss), len(sy)))
                dest = ss[0][1]["dest"]["l"]
                others = []
                for bi2, blk in enumerate(b.blocks):
                    t2 = blk["t"]
                    if t2["k"] == "switch" and b.dominates(bi2, sy[0][0]) and bi2 != sy[0][0]:
                        p2 = op_place(t2["op"])
                        if p2 is None or follow_copies(b, p2["l"]) != dest:
                            others.append(t2.get("line"))
                if bad or others:
                    chk.fail("R20.6", WS + name, "extra-skip-condition", "sync_if_necessary skips the sync on a condition other than should_sync (%s)" % (others or "writer offsets"), b)
                else:
                    chk.ok("R20.6", "sync_if_necessary: sync() iff should_sync()", b.where())
    chk.floor("R20.6", n6, 2)
    return {}


def rollover_syncs_first(chk, prog, rule):
    """rollover syncs the old segment successfully (publishing its final offset and draining the pending index entries into the OLD live
    indexes) before it replaces writer, indexes and channel (C20 R20.4, C01 R1.8)"""
    rb = prog.body(WS + "rollover")
    chk.analysed(rb.path)
    syn = calls(rb, WS + "sync")
    tx = field_stores(rb, "sync_tx", "WriterSet")
    if syn and tx and all(rb.dominates(syn[0][0], t[0]) for t in tx):
        from ..util import try_continue_block
        cont = try_continue_block(rb, syn[0][0])
        if cont is not None and all(rb.dominates(cont, t[0]) for t in tx):
            chk.ok(rule, "rollover syncs the old segment successfully before replacing the sync channel", rb.where(syn[0][1]["line"]))
        else:
            chk.fail(rule, WS + "rollover", "channel-replaced-on-failed-sync", "the sync channel is replaced although the old segment's sync failed", rb)
    elif not tx:
        # the channel is kept: then rollover must not publish the NEW segment's (small) offset on it - a watch keeps only the latest value, so a
        # waiter of the old segment that has not been polled yet never sees the offset it waits for
        from .c01 import WATCH_SENDS
        rev_ = Ev(prog, rb)
        sends = [t for bi, t in rb.calls() if (rb.callee_decl(t) or "") in WATCH_SENDS and
                 any(isinstance(x, tuple) and x and x[0] == "field" and x[2] == "sync_tx" for x in walk(rev_.operand(t["args"][0], (bi, "T"))))]
        if sends:
            chk.fail(rule, WS + "rollover", "channel-reused-for-new-segment", "rollover publishes the new segment's offset on the old sync channel: appends still waiting for an offset "
                     "of the old segment only ever see smaller values and never complete", rb, sends[0]["line"])
        else:
            chk.ok(rule, "rollover keeps the channel and publishes nothing new on it: C01 R1.4 decides whether that is sound", rb.where())
    else:
        chk.fail(rule, WS + "rollover", "channel-replaced-before-sync", "the sync channel is replaced before the old segment was synced: appends waiting on the old channel are never woken", rb)
