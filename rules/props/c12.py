"""C12 - replicas apply replicated writes in sequence order, each at most once (R12.1-R12.5)."""
from ..facts import Program, Inconclusive, op_place
from ..flow import Ev, walk, resolve_upvars, show, strip
from ..gate import comparisons, switch_on, edge_dominates, linear, SWAP
from ..util import calls, field_stores, ok_return_blocks, must_pass

OQ = "sierradb_cluster::write::ordered_queue::OrderedQueue::<K, V>::"
TOQ = "sierradb_cluster::write::timeout_ordered_queue::TimeoutOrderedQueue::<K, V>::"
PRA = "sierradb_cluster::write::replicate::PartitionReplicatorActor::"
REPL = "sierradb_cluster::write::replicate::"
MAP_MUTATORS = ("BTreeMap::<K, V, A>::pop_last", "BTreeMap::<K, V, A>::pop_first", "BTreeMap::<K, V, A>::remove", "BTreeMap::<K, V, A>::insert",
                "BTreeMap::<K, V, A>::clear", "BTreeMap::<K, V, A>::retain", "BTreeMap::<K, V, A>::append", "BTreeMap::<K, V, A>::split_off",
                "BTreeMap::<K, V, A>::remove_entry", "OccupiedEntry::<'a, K, V, A>::remove_entry", "OccupiedEntry::<'a, K, V, A>::remove",
                "OccupiedEntry::<'a, K, V, A>::insert", "VacantEntry::<'a, K, V, A>::insert", "BTreeMap::<K, V, A>::extract_if")
PURGERS = ("BTreeMap::<K, V, A>::retain", "BTreeMap::<K, V, A>::split_off", "BTreeMap::<K, V, A>::pop_first", "BTreeMap::<K, V, A>::remove",
           "BTreeMap::<K, V, A>::extract_if", "BTreeMap::<K, V, A>::first_entry")


def err_blocks(body):
    out = []
    for i, j, s in body.assigns():
        if s["lhs"]["l"] == 0 and not s["lhs"]["p"] and s["rv"]["k"] == "agg" and s["rv"]["ak"].endswith("Result::Err"):
            out.append((i, s))
    return out


def has_field(term, name, owner_sub=""):
    return any(isinstance(x, tuple) and x and x[0] == "field" and x[2] == name and owner_sub in x[3] for x in walk(term))


def run(chk, facts_dir, tier):
    prog = Program(facts_dir, crates=["sierradb_cluster-lib"])
    chk.rule("R12.1", "QUEUE INVARIANT `no key below next`: a function that stores OrderedQueue.next (other than new) also removes the smaller keys; "
                      "insert rejects key < next as Stale; pop removes exactly the entry at next")
    chk.rule("R12.2", "buffer_write keys a write by expected_partition_sequence.into_next_version(); its three error arms hand back the NEW write's reply sender; "
                      "the eviction arm answers the evicted senders")
    chk.rule("R12.3", "Every write popped from the queue flows into write_buffered, which answers all its senders with the result of write_transaction; "
                      "a rejected write is answered with the error")
    chk.rule("R12.4", "write_transaction advances the queue (progress_to(last_partition_sequence + 1)) on the Ok arm only")
    chk.rule("R12.5", "REJECTION IS PURE: no path of OrderedQueue::insert mutates the map and then returns Err (a rejected write leaves the buffer untouched)")
    chk.not_decided += ["eventual application under arbitrary delivery orders (liveness)", "the catch-up path's idempotence is decided under C10 (R10.1)"]

    # ---------------- R12.1
    n_next = 0
    for b in prog.bodies.values():
        st = field_stores(b, "next", "ordered_queue::OrderedQueue")
        if not st:
            continue
        n_next += 1
        chk.analysed(b.path)
        purge = calls(b, *PURGERS, suffix=True)
        if purge:
            chk.ok("R12.1", "%s stores next and purges smaller keys" % b.path.split("::")[-1], b.where(st[0][2]["line"]))
        else:
            chk.fail("R12.1", b.path, "next-without-purge", "OrderedQueue.next is moved forward but entries with smaller keys stay in the map: they can never be popped "
                     "(pop only looks at `next`) nor evicted first, and their senders are never answered", b, st[0][2]["line"])
    chk.floor("R12.1", n_next, 1)
    ib = prog.body(OQ + "insert")
    chk.analysed(ib.path)
    iev = Ev(prog, ib)
    stale_ok = False
    for c in comparisons(prog, ib, iev):
        a, d, op = strip(c["a"]), strip(c["b"]), c["op"]
        if a[0] == "param" and a[2] == "key" and has_field(d, "next", "OrderedQueue"):
            pass
        elif d[0] == "param" and d[2] == "key" and has_field(a, "next", "OrderedQueue"):
            op = SWAP[op]
        else:
            continue
        if op != "Lt":
            continue
        sw = switch_on(ib, c["sw_block"], c["lhs"]["l"])
        if not sw:
            continue
        for i, s in err_blocks(ib):
            term = iev.operand(s["rv"]["ops"][0], (i, 0))
            if any(isinstance(x, tuple) and x and x[0] == "agg" and x[1].endswith("Error::Stale") for x in walk(term)) and edge_dominates(ib, c["sw_block"], sw[0], i):
                stale_ok = True
    if stale_ok:
        chk.ok("R12.1", "insert: key < next => Err(Stale)", ib.where())
    else:
        chk.fail("R12.1", OQ + "insert", "stale-accepted", "insert no longer rejects keys below `next` as Stale", ib)
    pb = prog.body(OQ + "pop")
    chk.analysed(pb.path)
    pev = Ev(prog, pb)
    rm = calls(pb, "BTreeMap::<K, V, A>::remove", suffix=True)
    if len(rm) == 1 and has_field(pev.operand(rm[0][1]["args"][1], (rm[0][0], "T")), "next", "OrderedQueue") and len(list(pb.calls())) == 1:
        chk.ok("R12.1", "pop removes exactly map[next]", pb.where())
    else:
        chk.fail("R12.1", OQ + "pop", "pop-shape", "pop is no longer `map.remove(&self.next)`", pb)

    # ---------------- R12.5
    muts = calls(ib, *MAP_MUTATORS, suffix=True)
    errs = err_blocks(ib)
    if not muts or not errs:
        raise Inconclusive("OrderedQueue::insert: no mutators or no Err returns found")
    # guarded eviction: mutator dominated by the false edge of contains_key(&key)
    ck = []
    for bi, t in calls(ib, "BTreeMap::<K, V, A>::contains_key", suffix=True):
        sw = switch_on(ib, t["target"], t["dest"]["l"])
        if sw:
            ck.append((t["target"], sw[0], sw[1]))
    # Err blocks under the Occupied arm of entry(key)
    occ_blocks = set()
    for bi, t in calls(ib, "BTreeMap::<K, V, A>::entry", suffix=True):
        # discriminant switch on the entry result
        tb = t["target"]
        seen = 0
        while tb is not None and seen < 4:
            tt = ib.term(tb)
            if tt["k"] == "switch":
                for v, tgt in tt["targets"]:
                    # variant index 1 == Occupied (enum Entry { Vacant, Occupied })
                    if v == "1":
                        occ_blocks |= ib.reach_from([tgt], avoid=frozenset([tb]))
                break
            tb = tt.get("target") if tt["k"] in ("goto", "drop") else None
            seen += 1
    for mb, mt in muts:
        after = ib.reach_after([mb])
        guarded = any(edge_dominates(ib, sb, fa, mb) for (sb, tr, fa) in ck)
        for eb, es in errs:
            if eb not in after:
                continue
            if guarded and eb in occ_blocks:
                continue  # infeasible: the key was absent when the eviction happened
            chk.fail("R12.5", OQ + "insert", "mutate-then-err", "%s (L%d) can be followed by an Err return (L%d): the rejected write has already changed the buffer "
                     "(an evicted or popped entry is lost together with its reply senders)" % ((ib.callee_decl(mt) or "").split("::")[-1], mt["line"], es["line"]), ib, mt["line"])
            break
        else:
            chk.ok("R12.5", "no Err return after %s (L%d)" % ((ib.callee_decl(mt) or "").split("::")[-1], mt["line"]), ib.where(mt["line"]))

    # ---------------- R12.2
    bw = prog.body(PRA + "buffer_write")
    chk.analysed(bw.path)
    bev = Ev(prog, bw)
    ins = calls(bw, TOQ + "insert")
    if len(ins) != 1:
        raise Inconclusive("buffer_write: expected one queue insert")
    key = bev.operand(ins[0][1]["args"][1], (ins[0][0], "T"))
    if linear(key)[1] == 0 and any(isinstance(x, tuple) and x and x[0] == "call" and x[1].endswith("ExpectedVersion::into_next_version") and
                                   any(isinstance(y, tuple) and y and y[0] == "call" and y[1].endswith("get_expected_partition_sequence") for y in walk(x)) for x in walk(key)):
        chk.ok("R12.2", "queue key = expected_partition_sequence.into_next_version()", bw.where(ins[0][1]["line"]))
    else:
        chk.fail("R12.2", PRA + "buffer_write", "queue-key", "the buffered write is not keyed by the coordinator-assigned sequence: %s" % show(key)[:100], bw, ins[0][1]["line"])
    news = calls(bw, REPL + "BufferWriteError::new")
    for bi, t in news:
        term = bev.operand(t["args"][1], (bi, "T"))
        if has_field(term, "reply_senders", "BufferedWrite") and any(isinstance(x, tuple) and x and x[0] == "variant" and x[2] in ("Conflict", "Full", "Stale") for x in walk(term)):
            chk.ok("R12.2", "error arm returns the rejected write's own sender", bw.where(t["line"]))
        else:
            chk.fail("R12.2", PRA + "buffer_write", "error-sender", "an error arm does not hand back the rejected write's reply sender: %s" % show(term)[:100], bw, t["line"])
    chk.floor("R12.2-errors", len(news), 3)
    evs = [t for bi, t in calls(bw, "ReplySender::<R>::send", suffix=True)
           if any(isinstance(x, tuple) and x and x[0] == "agg" and x[1].endswith("WriteError::BufferEvicted") for x in walk(bev.operand(t["args"][1], (bi, "T"))))]
    if not evs:
        # the answering loop may have been extracted into a private helper of buffer_write
        for bi, t in bw.calls():
            hb = prog.bodies.get(bw.callee(t) or bw.callee_decl(t) or "")
            if hb is None or hb.path == bw.path:
                continue
            hev = Ev(prog, hb)
            hs = [t2 for bi2, t2 in calls(hb, "ReplySender::<R>::send", suffix=True)
                  if any(isinstance(x, tuple) and x and x[0] == "agg" and x[1].endswith("WriteError::BufferEvicted") for x in walk(hev.operand(t2["args"][1], (bi2, "T"))))]
            if hs:
                evs = [t]
    if evs:
        chk.ok("R12.2", "evicted senders are answered with BufferEvicted", bw.where(evs[0]["line"]))
    else:
        chk.fail("R12.2", PRA + "buffer_write", "evicted-unanswered", "evicted writes are dropped without answering their senders", bw)

    # ---------------- R12.3
    POP = PRA + "pop_next_buffered_write"
    WB = PRA + "write_buffered"
    n_pop = 0
    for b, bi in prog.callers().get(POP, []):
        n_pop += 1
        chk.analysed(b.path)
        ev = Ev(prog, b)
        wbs = calls(b, WB)
        flows = False
        for wb_b, wb_t in wbs:
            arg = ev.operand(wb_t["args"][1], (wb_b, "T"))
            if any(isinstance(x, tuple) and x and x[0] == "call" and x[1] == POP for x in walk(arg)):
                flows = True
        if flows:
            chk.ok("R12.3", "popped write flows into write_buffered (%s)" % (b.root or b.path).split("::")[-2][-40:], b.where(b.term(bi)["line"]))
        else:
            chk.fail("R12.3", b.root or b.path, "popped-dropped", "a write popped from the queue is not handed to write_buffered: it is removed from the buffer without being applied or answered", b, b.term(bi)["line"])
    chk.floor("R12.3", n_pop, 3)
    wbb = prog.body(WB + "::{closure#0}")
    chk.analysed(wbb.path)
    wev = Ev(prog, wbb)
    wt = calls(wbb, PRA + "write_transaction")
    snd = calls(wbb, "ReplySender::<R>::send", suffix=True)
    if wt and snd and all(wbb.dominates(wt[0][0], s_[0]) for s_ in snd) and \
            any(has_field(wev.operand(t["args"][0], (bi, "T")), "reply_senders") or "reply_senders" in show(wev.operand(t["args"][0], (bi, "T"))) for bi, t in snd):
        chk.ok("R12.3", "write_buffered answers the write's senders after write_transaction", wbb.where(snd[0][1]["line"]))
    else:
        chk.fail("R12.3", WB, "senders-unanswered", "write_buffered does not answer the buffered write's senders with the write result", wbb)
    fam = prog.family("sierradb_cluster::<write::replicate::PartitionReplicatorActor as kameo::message::Message<write::replicate::ReplicateWrite>>::handle")
    answered = False
    for b in fam:
        ev = Ev(prog, b)
        for bi, t in calls(b, "ReplySender::<R>::send", suffix=True):
            term = ev.operand(t["args"][1], (bi, "T"))
            if any(isinstance(x, tuple) and x and x[0] == "agg" and x[1].endswith("Result::Err") for x in walk(term)):
                answered = True
    if answered:
        chk.ok("R12.3", "ReplicateWrite handler answers a rejected write with the error", fam[0].where())
    else:
        chk.fail("R12.3", fam[0].path, "rejected-unanswered", "a write rejected by buffer_write is not answered", fam[0])

    # ---------------- R12.4
    wtb = prog.body(PRA + "write_transaction::{closure#0}")
    chk.analysed(wtb.path)
    tev = Ev(prog, wtb)
    pg = calls(wtb, TOQ + "progress_to", OQ + "progress_to")
    if len(pg) != 1:
        chk.fail("R12.4", PRA + "write_transaction", "progress-count", "write_transaction calls progress_to %d times" % len(pg), wtb)
    else:
        arg = tev.operand(pg[0][1]["args"][1], (pg[0][0], "T"))
        base, off = linear(arg)
        okarg = off == 1 and has_field(base, "last_partition_sequence", "AppendResult")
        # under the Ok variant of the append result
        okarm = any(isinstance(x, tuple) and x and x[0] == "variant" and x[2] == "Ok" for x in walk(arg))
        if okarg and okarm:
            chk.ok("R12.4", "progress_to(append.last_partition_sequence + 1) on the Ok arm", wtb.where(pg[0][1]["line"]))
        else:
            chk.fail("R12.4", PRA + "write_transaction", "progress-arg", "the queue is not advanced to last_partition_sequence + 1 of a successful append: %s" % show(arg)[:100], wtb, pg[0][1]["line"])
    # ---------------- R12.6 a buffered write is only discarded once every one of its senders has expired
    chk.rule("R12.6", "EXPIRY IS PER SENDER: the replicator removes an entry from the out-of-order buffer without applying or answering it only on the `false` edge of "
                      "BufferedWrite::garbage_collect(buffer_timeout) for that entry (garbage_collect drops the reply senders that are older than the timeout and says whether any "
                      "is left); expiring on the arrival time of the first attempt drops a write whose retry was merged in moments ago")
    n6 = 0
    for b in prog.family(PRA + "detect_and_handle_gaps"):
        ev6 = Ev(prog, b)
        gcs = [(bi, t) for bi, t in b.calls() if (b.callee_decl(t) or "").endswith("BufferedWrite::garbage_collect")]
        for bi, t in b.calls():
            c = b.callee_decl(t) or ""
            if not (c.endswith("OccupiedEntry::<'a, K, V, A>::remove") or c.endswith("OccupiedEntry::<'a, K, V, A>::remove_entry") or (c.rsplit("::", 1)[-1] in ("remove", "pop_first", "remove_entry") and "BTreeMap" in c)):
                continue
            n6 += 1
            ok6 = False
            for gb, gt in gcs:
                sw = switch_on(b, gt["target"], gt["dest"]["l"]) if gt.get("target") is not None else None
                if sw and edge_dominates(b, gt["target"], sw[1], bi):
                    ok6 = True
            if ok6:
                chk.ok("R12.6", "expired entry removed only when garbage_collect left no live sender", b.where(t["line"]))
            else:
                chk.fail("R12.6", PRA + "detect_and_handle_gaps", "expiry-without-garbage-collect", "a buffered write is removed from the queue without `garbage_collect` having found all its "
                         "senders expired: a retry that was merged into it is dropped unanswered and the write is never applied", b, t["line"])
    chk.floor("R12.6", n6, 1)
    return {}
