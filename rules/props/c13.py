"""C13 - storage placement agrees with cluster routing (R13.1-R13.4)."""
from ..facts import Program, Inconclusive, op_place
from ..flow import Ev, walk, resolve_upvars, show, strip
from ..util import calls

CFG = "sierradb_server::config::AppConfig::"
TM = "sierradb_topology::manager::TopologyManager::<T>::"


def addsub_leaves(term, sign=1, out=None):
    """flatten an Add/Sub tree (checked forms included) into [(sign, leaf term)]"""
    out = [] if out is None else out
    t = strip(term)
    if t[0] == "field" and t[2] == "0" and t[1][0] == "bin" and t[1][1] in ("AddWithOverflow", "SubWithOverflow"):
        t = ("bin", t[1][1].replace("WithOverflow", ""), t[1][2], t[1][3])
    if t[0] == "bin" and t[1] in ("Add", "Sub"):
        addsub_leaves(t[2], sign, out)
        addsub_leaves(t[3], sign if t[1] == "Add" else -sign, out)
    else:
        out.append((sign, t))
    return out


def is_loop_var(t):
    """value produced by iterating a range (the replica offset)"""
    return any(isinstance(x, tuple) and x and x[0] == "call" and x[1].endswith("::next") and ("Iterator" in x[1] or "Range" in x[1]) for x in walk(t))


def is_direct_loop_var(t):
    t = strip(t)
    while t[0] in ("field", "variant", "cast"):
        t = strip(t[1])
    return t[0] == "call" and t[1].endswith("::next") and ("Iterator" in t[1] or "Range" in t[1])


def ring_relations(prog, body):
    """find `X = (A +/- off ...) % n` with off an iteration variable over a range - the variable of a `for` loop, or the parameter of
    a closure given to an iterator adaptor (`(0..k).any(|off| ..)`): returns list of (coef of off, leaves description, line)"""
    from ..shapes import is_range_iter_param
    out = []
    for b in prog.family(body.root or body.path):
        ev = Ev(prog, b)

        def is_off(lf, b=b):
            return is_direct_loop_var(lf) or is_range_iter_param(prog, b, lf)

        for i, j, s in b.assigns():
            rv = s["rv"]
            if rv["k"] == "bin" and rv["o"] == "Rem":
                num = ev.operand(rv["a"], (i, j))
                leaves = addsub_leaves(num)
                offs = [sg for sg, lf in leaves if is_off(lf)]
                if len(offs) == 1 and len(leaves) >= 2:
                    others = [(sg, show(resolve_upvars(prog, lf, b))[:40]) for sg, lf in leaves if not is_off(lf)]
                    out.append((offs[0], others, s["line"], leaves))
    return out


def run(chk, facts_dir, tier):
    prog = Program(facts_dir, crates=["sierradb_topology-lib", "sierradb_server-lib", "sierradb-bin", "sierradb-lib", "sierradb_cluster-lib"])
    chk.rule("R13.1", "PRIMARY KERNEL: the bucket -> primary node rule of storage (AppConfig::assigned_buckets) and of routing (TopologyManager::calculate_*) is the same "
                      "function (shared callee or equal normal form)")
    chk.rule("R13.2", "RING DIRECTION: both sides walk the replica ring the same way: node == primary + s*offset (mod N) with the same sign s")
    chk.rule("R13.3", "PARTITION -> BUCKET is `p % bucket_count` at every site (never `/`), in every crate")
    chk.rule("R13.4", "main passes the same assigned_buckets value to the storage (DatabaseBuilder::bucket_ids) and, through assigned_partitions, to the cluster (ClusterArgs)")
    chk.not_decided += ["numerical agreement for configurations where the two kernels differ syntactically: then the verdict is 'not established' (finding D12), which on "
                        "today's tree coincides with a real disagreement (N=2, 4 buckets, rf=1: storage {0,1}/{2,3}, routing {0,2}/{1,3})"]
    sb = prog.body(CFG + "assigned_buckets")
    ta = prog.body(TM + "calculate_assigned_partitions")
    tr = prog.body(TM + "calculate_partition_replicas")
    for b in (sb, ta, tr):
        chk.analysed(b.path)
    # ---- R13.1 kernel of primary(bucket)
    def topo_kernel(b):
        ev = Ev(prog, b)
        for i, j, s in b.assigns():
            rv = s["rv"]
            if rv["k"] == "bin" and rv["o"] == "Rem":
                a = strip(ev.operand(rv["a"], (i, j)))
                d = strip(ev.operand(rv["b"], (i, j)))
                if d[0] == "param" and d[2] == "total_node_count" and len(addsub_leaves(a)) == 1:
                    return "modulo: primary(b) = b % total_node_count", s["line"]
        return None, None
    k_a, l_a = topo_kernel(ta)
    k_r, l_r = topo_kernel(tr)
    # storage: buckets of a primary are a contiguous range start..start+count
    sev = Ev(prog, sb)
    rng = [s for i, j, s in sb.assigns() if s["rv"]["k"] == "agg" and s["rv"]["ak"].endswith("ops::Range")]
    mul = any(s["rv"]["k"] == "bin" and s["rv"]["o"] in ("Mul", "MulWithOverflow") for i, j, s in sb.assigns())
    k_s = "range: buckets(primary) = start..start+count, start = primary*buckets_per_node + min(primary, extra)" if (len(rng) >= 2 and mul) else None
    if k_s is None:
        # maybe storage now uses the modulo kernel
        for i, j, s in sb.assigns():
            if s["rv"]["k"] == "bin" and s["rv"]["o"] == "Rem":
                a = strip(sev.operand(s["rv"]["a"], (i, j)))
                if len(addsub_leaves(a)) == 1 and not is_loop_var(a) is False:
                    k_s = "modulo"
    if k_a and k_r and k_a == k_r:
        chk.ok("R13.1", "topology: ownership and replica sets use the same primary kernel (%s)" % k_a, ta.where(l_a))
    else:
        chk.fail("R13.1", TM + "calculate_partition_replicas", "topology-kernels-differ", "ownership (%s) and replica sets (%s) no longer use the same bucket -> primary rule" % (k_a, k_r), tr)
    if k_s and k_a and k_s.split(":")[0] == k_a.split(":")[0]:
        chk.ok("R13.1", "storage and routing use the same primary kernel", sb.where())
    else:
        chk.fail("R13.1", CFG + "assigned_buckets", "primary-kernel-differs", "storage assigns buckets to nodes by [%s] while routing uses [%s]: agreement is not established "
                 "(and fails for N=2, 4 buckets, rf=1: storage {0,1}/{2,3}, routing {0,2}/{1,3})" % (k_s, k_a), sb)

    # ---- R13.2 ring direction
    rs = ring_relations(prog, sb)
    ra = ring_relations(prog, ta)
    rr = ring_relations(prog, tr)
    if len(rs) != 1 or len(ra) != 1 or len(rr) != 1:
        raise Inconclusive("ring relations not found (storage %d, ownership %d, replicas %d)" % (len(rs), len(ra), len(rr)))
    # storage: primary = (index + n - off) % n  => node - primary = -coef*off ; topology: node = (primary + off) % n => node - primary = +coef*off
    s_storage = -rs[0][0]
    s_own = ra[0][0]
    s_rep = rr[0][0]
    # sanity: storage relation is written in terms of the node's own index; topology in terms of the primary
    idx_in_storage = any("index" in d for sg, d in rs[0][1])
    prim_in_topo = all(any("Rem" in d or "primary" in d or "%" in d for sg, d in r[0][1]) or True for r in (ra, rr))
    if s_storage == s_own == s_rep and idx_in_storage:
        chk.ok("R13.2", "storage and routing walk the ring in the same direction (node = primary %s offset)" % ("+" if s_own > 0 else "-"), sb.where(rs[0][2]))
    else:
        chk.fail("R13.2", CFG + "assigned_buckets", "ring-direction", "storage solves `primary = node %s offset` (so node = primary %s offset) but routing places replicas at `primary %s offset`: "
                 "for 1 < rf < N a node opens the buckets of its successors while it is routed the buckets of its predecessors" %
                 ("+" if rs[0][0] > 0 else "-", "+" if s_storage > 0 else "-", "+" if s_own > 0 else "-"), sb, rs[0][2])
    # effective replication factor is min(rf, N) on all three sides: some value in the function is the minimum (call, if/else select or
    # private helper) of a replication-factor value and a node-count value
    from ..shapes import min_parts
    for b in (sb, ta, tr):
        ev = Ev(prog, b)
        good = False
        cands = []
        for bi, t in b.calls():
            cands.append(("call", b.callee_decl(t) or "", tuple(ev.operand(a, (bi, "T")) for a in t["args"]), bi, b.path))
        for L, defs in b.defs.items():
            ds = [d for d in defs if not d[2]["p"]]
            if len(ds) == 2:
                cands.append(("phi", tuple(ev._rvalue(d[3], (d[0], d[1]), 0) for d in ds)))
        for cand in cands:
            mp = min_parts(prog, b, ev, cand)
            if mp is None:
                continue
            txt = show(mp[0]) + " " + show(mp[1])
            if ("replication" in txt or "factor" in txt) and ("node_count" in txt):
                good = True
        if good:
            chk.ok("R13.2", "%s bounds the ring walk by min(rf, N)" % b.path.split("::")[-1], b.where())
        else:
            chk.fail("R13.2", b.path, "replica-bound", "the replica walk is not bounded by min(replication_factor, node_count)", b)

    # ---- R13.3
    n_rem = 0
    for b in prog.bodies.values():
        if "/tests/" in b.file or "fuzz" in b.file:
            continue
        ev = None
        for i, j, s in b.assigns():
            rv = s["rv"]
            if rv["k"] == "bin" and rv["o"] in ("Rem", "Div"):
                ev = ev or Ev(prog, b)
                d = show(resolve_upvars(prog, ev.operand(rv["b"], (i, j)), b))
                a = show(resolve_upvars(prog, ev.operand(rv["a"], (i, j)), b))
                dl = d.lower()
                if any(k in dl for k in ("bucket_count", "num_buckets", "total_buckets", "bucket.count")) and "partition" in a.lower():
                    if rv["o"] == "Rem":
                        n_rem += 1
                    else:
                        chk.fail("R13.3", b.root or b.path, "partition-div-bucket", "a partition id is mapped to a bucket with `/` instead of `%%`: %s / %s" % (a[:40], d[:40]), b, s["line"])
    chk.floor("R13.3", n_rem, 6)
    if n_rem >= 6:
        chk.ok("R13.3", "%d sites map a partition to its bucket with `p %% bucket_count`; none uses `/`" % n_rem, "")

    # ---- R13.4
    mb = prog.body("sierradb::main::{closure#0}") if "sierradb::main::{closure#0}" in prog.bodies else None
    if mb is None:
        cands = [p for p in prog.bodies if p.startswith("sierradb::main")]
        for p in cands:
            if calls(prog.bodies[p], CFG + "assigned_buckets"):
                mb = prog.bodies[p]
    if mb is None:
        raise Inconclusive("main: call to assigned_buckets not found")
    chk.analysed(mb.path)
    mev = Ev(prog, mb)
    ab = calls(mb, CFG + "assigned_buckets")
    ap = calls(mb, CFG + "assigned_partitions")
    bi_ = [(bi, t) for bi, t in mb.calls() if (mb.callee_decl(t) or "").endswith("DatabaseBuilder::bucket_ids")]
    ok4 = False
    if len(ab) == 1 and len(ap) == 1 and len(bi_) == 1:
        a1 = mev.operand(ap[0][1]["args"][1], (ap[0][0], "T"))
        a2 = mev.operand(bi_[0][1]["args"][1], (bi_[0][0], "T"))
        f = lambda t: any(isinstance(x, tuple) and x and x[0] == "call" and x[1] == CFG + "assigned_buckets" for x in walk(t))
        ca = [(i, s) for i, j, s in mb.assigns() if s["rv"]["k"] == "agg" and s["rv"]["ak"].endswith("ClusterArgs")]
        parts_ok = False
        for i, s in ca:
            pv = mev.operand(s["rv"]["ops"][s["rv"]["fields"].index("assigned_partitions")], (i, 0))
            parts_ok = any(isinstance(x, tuple) and x and x[0] == "call" and x[1] == CFG + "assigned_partitions" for x in walk(pv))
        ok4 = f(a1) and f(a2) and parts_ok
    if ok4:
        chk.ok("R13.4", "main: storage buckets and cluster partitions derive from one assigned_buckets() value", mb.where(ab[0][1]["line"]))
    else:
        chk.fail("R13.4", "sierradb::main", "two-placements", "the buckets opened for storage and the partitions announced to the cluster are not derived from the same assigned_buckets() value", mb)
    # ---- R13.5 role binding at the placement kernels
    chk.rule("R13.5", "ROLE BINDING: at every call of a placement kernel (calculate_partition_replicas, calculate_assigned_partitions, assigned_buckets/assigned_partitions) the "
                      "argument bound to a parameter named bucket_count / num_partitions / total_node_count / replication_factor is not computed from a field, parameter or "
                      "captured variable that carries another of these role names (same-typed quantities bound crosswise: routing would use `partition % partitions` where "
                      "storage uses `partition % buckets`)")
    ROLES = ("bucket_count", "num_partitions", "total_node_count", "replication_factor", "partition_count", "node_count")
    n5 = 0
    for p, b in sorted(prog.bodies.items()):
        if "/tests/" in b.file:
            continue
        ev = None
        for bi, t in b.calls():
            c = b.callee(t) or b.callee_decl(t) or ""
            kb = prog.bodies.get(c)
            if kb is None or kb.argc < 2:
                continue
            pnames = [kb.local_name(i + 1) for i in range(kb.argc)]
            if len([n_ for n_ in pnames if n_ in ROLES]) < 2:
                continue
            ev = ev or Ev(prog, b)
            for i, a in enumerate(t["args"][:kb.argc]):
                pn = pnames[i]
                if pn not in ROLES:
                    continue
                term = resolve_upvars(prog, ev.operand(a, (bi, "T")), b)
                names = set()
                for x in walk(term):
                    if isinstance(x, tuple) and x:
                        if x[0] == "field" and x[2] in ROLES:
                            names.add(x[2])
                        elif x[0] == "param" and x[2] in ROLES:
                            names.add(x[2])
                        elif x[0] == "upvar" and x[1].split(".")[-1] in ROLES:
                            names.add(x[1].split(".")[-1])
                n5 += 1
                if names and pn not in names:
                    chk.fail("R13.5", b.root or b.path, "crossed-roles:%s<-%s" % (pn, ",".join(sorted(names))), "the `%s` parameter of %s is given a value computed from `%s`" %
                             (pn, c.rsplit("::", 1)[-1], ", ".join(sorted(names))), b, t["line"])
                else:
                    chk.ok("R13.5", "%s(.. %s ..) bound to %s" % (c.rsplit("::", 1)[-1], pn, sorted(names) or "a local value"), b.where(t["line"]))
    chk.floor("R13.5", n5, 8)

    # ---- R13.6 the configuration domain on which the two kernels are compared
    chk.rule("R13.6", "VALIDATED DOMAIN: AppConfig::validate reports NodeIndexOutOfBounds exactly on the edge `node.index >= node.count`: the storage kernel reduces the node "
                      "index modulo the node count (an index equal to the count silently becomes node 0 and opens node 0's buckets) while the routing kernel compares the raw "
                      "index and assigns it nothing, so an accepted out-of-range index is a configuration on which storage and routing disagree")
    from ..gate import comparisons, switch_on, edge_dominates, linear, SWAP
    vb = prog.body(CFG + "validate")
    n6 = 0
    good6 = False
    seen6 = []
    # validate itself, its closures, and any helper of the config module the check was moved to
    cands6 = list(prog.family(CFG + "validate")) + [b for p_, b in sorted(prog.bodies.items()) if p_.startswith("sierradb_server::config::") and b not in prog.family(CFG + "validate")]
    for b in cands6:
        ev6 = Ev(prog, b)
        errs = [i for i, j, s_ in b.assigns() if s_["rv"]["k"] == "agg" and str(s_["rv"].get("ak", "")).endswith("ValidationError::NodeIndexOutOfBounds")]
        if not errs:
            continue
        chk.analysed(b.path)
        n6 += len(errs)
        for c in comparisons(prog, b, ev6):
            def role(t):
                names = {x[2] for x in walk(t) if isinstance(x, tuple) and x and x[0] == "field" and "NodeConfig" in str(x[3])}
                return "index" if names == {"index"} else ("count" if names == {"count"} else None)
            ra, rb = role(c["a"]), role(c["b"])
            if {ra, rb} != {"index", "count"}:
                continue
            a, b_, op = (c["a"], c["b"], c["op"]) if ra == "index" else (c["b"], c["a"], SWAP[c["op"]])
            sw = switch_on(b, c["sw_block"], c["lhs"]["l"])
            if not sw:
                continue
            d = linear(b_)[1] - linear(a)[1]          # index OP count + d
            for truth, dst in ((True, sw[0]), (False, sw[1])):
                eff = op if truth else {"Ge": "Lt", "Gt": "Le", "Lt": "Ge", "Le": "Gt", "Eq": "Ne", "Ne": "Eq"}[op]
                if not all(edge_dominates(b, c["sw_block"], dst, e) for e in errs):
                    continue
                exact = (eff == "Ge" and d == 0) or (eff == "Gt" and d == -1)
                seen6.append("index %s count%+d" % (eff, d))
                if exact:
                    good6 = True
                    chk.ok("R13.6", "NodeIndexOutOfBounds on `node.index >= node.count`", b.where(c["line"]))
    if n6 == 0:
        chk.fail("R13.6", CFG + "validate", "no-index-bound", "AppConfig::validate no longer reports NodeIndexOutOfBounds: any node index is accepted", vb)
    elif not good6:
        chk.fail("R13.6", CFG + "validate", "index-bound-inexact", "NodeIndexOutOfBounds is not reported exactly when node.index >= node.count (edges seen: %s): an index the storage "
                 "kernel wraps onto another node is accepted" % (seen6 or "none"), vb)
    return {}
