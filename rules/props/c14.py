"""C14 - every partition has exactly min(rf, N) distinct replicas, the same on every node (R14.1-R14.3)."""
from ..facts import Program, Inconclusive, op_place
from ..flow import Ev, walk, show, strip
from ..gate import Classifier
from ..util import calls
from .. import panic
from .c24 import report_audit
from . import c13

TM = "sierradb_topology::manager::TopologyManager::<T>::"
CFG = "sierradb_server::config::AppConfig::"


def run(chk, facts_dir, tier):
    prog = Program(facts_dir, crates=["sierradb_topology-lib", "sierradb_server-lib"])
    cls = Classifier(prog, lambda t: False, lambda t: False)
    chk.rule("R14.1", "NO TRUNCATED COUNTS: no narrowing cast of a node / partition / bucket count in the placement code (topology manager, server config) without a range guard")
    chk.rule("R14.2", "REPLICA WALK: the loop bound is min(rf as usize, N) computed in the wider type; the replica index is (primary + offset) % N; ownership "
                      "(calculate_assigned_partitions) and replica sets (calculate_partition_replicas) use the same kernel")
    chk.rule("R14.3", "DETERMINISTIC ORDER: the ordered output of get_available_replicas is sorted by a total order (alive_since, then the replica reference); a sort on "
                      "alive_since alone keeps the arrival order of ties, which differs between nodes")
    chk.not_decided += ["all membership-event orders (histories)", "that the configured node indices are distinct"]
    allow_cfg = {"unwrap:Result::unwrap": "bucket ids are < bucket.count (u16), so usize -> u16 try_into cannot fail"}
    n = 0
    for p, allow in ((TM + "calculate_assigned_partitions", {}), (TM + "calculate_partition_replicas", {"op:<T, CAP>::push": "at most min(rf, N) <= MAX_REPLICATION_FACTOR pushes: replication factor is validated <= 12 by the configuration"}),
                     (CFG + "assigned_buckets", allow_cfg)):
        b = prog.body(p)
        chk.analysed(p)
        n += report_audit(chk, "R14.1", prog, b, allow, kinds=("cast",))
        for cb in prog.children(p):
            n += report_audit(chk, "R14.1", prog, cb, allow, kinds=("cast",))
        # every IntToInt cast in the function, widening ones included, is listed as an obligation
        ev = Ev(prog, b)
        for i, j, s in b.assigns():
            if s["rv"]["k"] == "cast" and s["rv"]["ck"] == "IntToInt":
                fr, to = s["rv"].get("from", ""), s["rv"]["ty"]
                if fr in panic.INT_RANGES and to in panic.INT_RANGES and panic.INT_RANGES[fr][1] <= panic.INT_RANGES[to][1] and panic.INT_RANGES[fr][0] >= panic.INT_RANGES[to][0]:
                    n += 1
                    chk.ok("R14.1", "%s L%d: %s as %s is widening" % (p.split("::")[-1], s["line"], fr, to), b.where(s["line"]))
    chk.floor("R14.1", n, 5)
    chk.assume("node count >= 1 and bucket count >= 1 (configuration validation); sums of node/bucket counts fit usize")

    # R14.2
    for p in (TM + "calculate_assigned_partitions", TM + "calculate_partition_replicas"):
        b = prog.body(p)
        ev = Ev(prog, b)
        ok = False
        from ..shapes import min_parts, uncast

        def is_rf(x):
            x = uncast(x)
            return x[0] == "param" and x[2] == "replication_factor"

        def is_n(x):
            x = uncast(x)
            return x[0] == "param" and x[2] == "total_node_count"

        cands = []
        for bi, t in b.calls():
            cands.append(("call", b.callee_decl(t) or "", tuple(ev.operand(a, (bi, "T")) for a in t["args"]), bi, b.path))
        for L, defs in b.defs.items():
            ds = [d for d in defs if not d[2]["p"]]
            if len(ds) == 2:
                cands.append(("phi", tuple(ev._rvalue(d[3], (d[0], d[1]), 0) for d in ds)))
        for cand in cands:
            mp = min_parts(prog, b, ev, cand)
            if mp is None:
                continue
            a0, a1 = mp
            # rf is widened (cast u8 -> usize) before the min, N is not narrowed
            if (is_rf(a0) and is_n(a1)) or (is_rf(a1) and is_n(a0)):
                casts = [x for x in list(walk(a0)) + list(walk(a1)) if isinstance(x, tuple) and x and x[0] == "cast"]
                if all(c[2] == "usize" for c in casts):
                    ok = True
        if ok:
            chk.ok("R14.2", "%s: effective rf = min(rf as usize, N)" % p.split("::")[-1], b.where())
        else:
            chk.fail("R14.2", p, "effective-rf", "the effective replication factor is not min(replication_factor as usize, total_node_count) in the wider type", b)
    ra = c13.ring_relations(prog, prog.body(TM + "calculate_assigned_partitions"))
    rr = c13.ring_relations(prog, prog.body(TM + "calculate_partition_replicas"))
    if len(ra) == 1 and len(rr) == 1 and ra[0][0] == rr[0][0] == 1:
        chk.ok("R14.2", "ownership and replica sets both place replicas at (primary + offset) % N", prog.body(TM + "calculate_partition_replicas").where(rr[0][2]))
    else:
        chk.fail("R14.2", TM + "calculate_partition_replicas", "walk-differs", "ownership and replica sets do not walk the ring the same way (%s vs %s): a node owns a partition it is not a replica of" %
                 ([r[0] for r in ra], [r[0] for r in rr]), prog.body(TM + "calculate_partition_replicas"))

    # R14.3
    gb = prog.body(TM + "get_available_replicas")
    fam = prog.family(TM + "get_available_replicas")
    sorts = []
    for b in fam:
        chk.analysed(b.path)
        ev = Ev(prog, b)
        for bi, t in b.calls():
            c = b.callee_decl(t) or ""
            last = c.rsplit("::", 1)[-1]
            if last in ("sort_by", "sort_unstable_by", "sort_by_key", "sort_unstable_by_key", "sort_by_cached_key", "sort", "sort_unstable"):
                sorts.append((b, bi, t, last, ev))
    if not sorts:
        chk.fail("R14.3", TM + "get_available_replicas", "unsorted", "get_available_replicas no longer sorts its result: coordinator order depends on map/arrival order", gb)
    for b, bi, t, last, ev in sorts:
        total = False
        desc = last
        if last in ("sort", "sort_unstable"):
            total = True  # Ord on the whole tuple
        else:
            cl = strip(ev.operand(t["args"][1], (bi, "T")))
            if cl[0] == "agg" and cl[1].startswith("closure:"):
                ret = cls.closure_return(cl[1].split(":", 1)[1])
                callsn = [x[1] for x in walk(ret) if isinstance(x, tuple) and x and x[0] == "call"]
                # `a.cmp(b).then_with(|| c.cmp(d))`: the second comparison lives in a nested closure
                for x in list(walk(ret)):
                    if isinstance(x, tuple) and len(x) > 1 and x[0] == "agg" and isinstance(x[1], str) and x[1].startswith("closure:"):
                        inner = cls.closure_return(x[1].split(":", 1)[1])
                        callsn += [y[1] for y in walk(inner) if isinstance(y, tuple) and y and y[0] == "call"]
                if last in ("sort_by", "sort_unstable_by"):
                    n_cmp = len([c for c in callsn if c.endswith("::cmp") or c.endswith("::partial_cmp")])
                    chained = any(c.endswith("Ordering::then") or c.endswith("Ordering::then_with") for c in callsn)
                    # `match a.cmp(b) { Equal => c.cmp(d), o => o }`: the second comparison is made under a match on the first one's result
                    cpath = cl[1].split(":", 1)[1]
                    cb2 = prog.bodies.get(cpath)
                    nested = False
                    if cb2 is not None:
                        from ..util import discr_switches
                        cmps = [(bi2, t2) for bi2, t2 in cb2.calls() if (cb2.callee_decl(t2) or "").rsplit("::", 1)[-1] in ("cmp", "partial_cmp")]
                        for sb2, place, targets, otherwise in discr_switches(cb2):
                            firsts = [c2 for c2 in cmps if not place["p"] and c2[1]["dest"]["l"] == place["l"]]
                            if firsts and any(cb2.dominates(sb2, c3[0]) and c3[0] != firsts[0][0] for c3 in cmps):
                                nested = True
                    total = n_cmp >= 2 and (chained or nested)
                    desc = "%s with %d comparisons%s" % (last, n_cmp, ", chained" if chained else (", second under a match on the first" if nested else ""))
                else:
                    r = strip(ret)
                    total = r[0] == "agg" and r[1] == "tuple" and len(r[2]) >= 2
                    desc = "%s with key %s" % (last, show(r)[:50])
        if total:
            chk.ok("R14.3", "get_available_replicas: %s is a total order on (alive_since, replica)" % desc, b.where(t["line"]))
        else:
            chk.fail("R14.3", TM + "get_available_replicas", "sort-not-total", "the replicas are ordered by %s: replicas with equal alive_since (second resolution) keep their stored order, "
                     "which depends on the path by which a node learned them, so two nodes with the same view pick different coordinators" % desc, b, t["line"])
    # ---------------- R14.4 membership change => replica sets recomputed
    chk.rule("R14.4", "MEMBERSHIP AND REPLICA SETS MOVE TOGETHER: every function of TopologyManager that inserts into or removes from active_nodes reaches "
                      "recalculate_partition_assignments on every path from that mutation to its return (a flag that is set to true right after the mutation and tested "
                      "before the recalculation is followed); otherwise a node knows a live member that owns no replica on it, and its replica sets differ from its peers'")
    RECALC = TM + "recalculate_partition_assignments"
    ALLOW4 = {TM + "handle_ownership_response": "replaces membership and replica sets together with a peer's snapshot"}
    MUT = ("insert", "remove", "retain", "clear", "extend", "drain", "remove_entry")
    n4 = 0
    for p, b in sorted(prog.bodies.items()):
        root = b.root or b.path
        if not root.startswith(TM) or root == RECALC:
            continue
        ev = None
        muts = []
        for bi, t in b.calls():
            c = b.callee_decl(t) or ""
            if "HashMap" in c and c.rsplit("::", 1)[-1] in MUT and t["args"]:
                ev = ev or Ev(prog, b)
                recv = ev.operand(t["args"][0], (bi, "T"))
                if any(isinstance(x, tuple) and x and x[0] == "field" and x[2] == "active_nodes" and "TopologyManager" in str(x[3]) for x in walk(recv)):
                    muts.append((bi, t))
        if not muts:
            continue
        chk.analysed(p)
        if root in ALLOW4:
            chk.ok("R14.4", "%s: allow-listed (%s)" % (root.rsplit("::", 1)[-1], ALLOW4[root]), b.where(muts[0][1]["line"]))
            continue
        rec = frozenset(bi for bi, t in b.calls() if (b.callee_decl(t) or "") == RECALC or (b.callee(t) or "") == RECALC)
        rets = b.return_blocks()
        for mb, mt in muts:
            n4 += 1
            start = mb
            if (b.callee_decl(mt) or "").rsplit("::", 1)[-1] in ("remove", "remove_entry"):
                # `if let Some(..) = map.remove(k)`: the membership only changed on the Some edge
                from ..util import discr_switches
                for sb, place, targets, otherwise in discr_switches(b):
                    if not place["p"] and place["l"] == mt["dest"]["l"] and b.dominates(mb, sb) and targets.get("1") is not None:
                        start = targets["1"]
            dead = _infeasible_false_edges(b, start)
            r = (b.reach_after([start], avoid=rec, avoid_edges=frozenset(dead)) | {start}) if start not in rec else set()
            bad = [x for x in rets if x in r]
            if bad or not rec:
                chk.fail("R14.4", root, "membership-without-recalculation", "active_nodes is changed (L%s) and the function can return without recalculate_partition_assignments: the replica "
                         "sets no longer follow the live membership" % mt.get("line"), b, mt["line"])
            else:
                chk.ok("R14.4", "%s: membership change at L%s always reaches the recalculation" % (root.rsplit("::", 1)[-1], mt.get("line")), b.where(mt["line"]))
    chk.floor("R14.4", n4, 4)
    return {}


def _infeasible_false_edges(body, mblock):
    """edges (switch block -> false target) on a bool flag that was set to `true` on every path from the mutation block to that switch
    and is never set back to false afterwards: after the mutation the flag test cannot take its false edge"""
    from ..gate import switch_on
    out = []
    after = body.reach_after([mblock]) | {mblock}
    for L, defs in body.defs.items():
        ds = [d for d in defs if not d[2]["p"]]
        if len(ds) < 2 or body.local_ty(L).strip() != "bool":
            continue
        trues = [d for d in ds if d[3].get("k") == "use" and "c" in d[3]["op"] and "true" in str(d[3]["op"].get("c"))]
        falses = [d for d in ds if d[3].get("k") == "use" and "c" in d[3]["op"] and "false" in str(d[3]["op"].get("c"))]
        if len(trues) + len(falses) != len(ds) or not trues:
            continue
        tblocks = frozenset(d[0] for d in trues if d[0] in after)
        if not tblocks:
            continue
        # no `flag = false` after a `flag = true`
        if any(f[0] in body.reach_after(list(tblocks)) for f in falses):
            continue
        for sb, blk in enumerate(body.blocks):
            if blk["t"]["k"] != "switch" or sb not in after:
                continue
            sw = switch_on(body, sb, L)
            if not sw:
                continue
            # every path from the mutation to this switch passes a `flag = true`
            if sb not in body.reach_after([mblock], avoid=tblocks) or sb in tblocks:
                out.append((sb, sw[1]))
    return out
