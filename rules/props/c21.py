"""C21 - documented and client-emitted commands parse as intended (grammar analysis G1-G5)."""
import re
import shlex
from ..facts import Program, Inconclusive
from .. import grammar as G
from .c25 import str_consts

S = "sierradb_server::"
# leaf semantics are frozen in grammar.PRIM_ACCEPT / ANDTHEN_ACCEPT; this is the structural fingerprint of the
# parser.rs closures they were read from (resolved callees). A change makes the tables stale -> INCONCLUSIVE.
LEAF_FINGERPRINT = {
    "string": set(),
    "data": set(),
    "keyword": {"to_uppercase", "eq"},
    "number_u64": {"parse", "try_into"},
    "number_u32": {"parse", "try_into"},
    "number_i64": {"parse"},
    "number_u64_min": set(),
    "partition_id": {"parse", "try_into"},
    "partition_ids": {"parse", "split", "trim", "try_into"},
    "partition_id_sequence": {"parse", "split_once"},
    "stream_id": {"StreamId::new"},
    "stream_id_version": {"StreamId::new", "parse", "split_once"},
    "uuid": {"parse_str", "trim"},
}
# keyword(): forms of `token == KW` ignoring case that were read and accepted; and callees that make the comparison partial
KEYWORD_EQUAL_IDIOMS = [{"to_uppercase", "eq"}, {"to_ascii_uppercase", "eq"}, {"eq_ignore_ascii_case"}]
KEYWORD_PARTIAL = {"starts_with", "ends_with", "contains", "find", "strip_prefix", "strip_suffix", "matches", "rfind"}
# frame decoding, error construction and Option/Result/iterator plumbing: not part of what a leaf accepts
PLUMBING = ("deref", "and_then", "ok", "map_err", "branch", "from_residual", "ok_or_else", "ok_or", "collect", "map", "from_iter", "new_display", "new", "format", "must_use",
            "from_utf8", "message_format", "message_static_message", "into", "from", "to_string", "unexpected_format", "expected_format", "filter", "then", "then_some",
            "as_ref", "as_deref", "copied", "cloned", "unwrap_or", "unwrap_or_default", "is_some", "is_ok")
UUID = G.SAMPLE_UUID


def leaf_fingerprints(prog):
    """per parser.rs leaf function: the semantic callees of its closures, and of the parser.rs helper functions it hands to a combinator
    by name (`string().and_then(parse_stream_id)`)"""
    out = {}

    def add(fn, b):
        s = out.setdefault(fn, set())
        for _, t in b.calls():
            c = b.callee_decl(t) or ""
            last = c.rsplit("::", 1)[-1]
            if c.endswith("StreamId::new"):
                s.add("StreamId::new")
                continue
            if last in PLUMBING:
                continue
            s.add(last)

    for p, b in prog.bodies.items():
        if not p.startswith(S + "parser::"):
            continue
        fn = p[len(S + "parser::"):].split("::", 1)[0]
        if "{closure" in p:
            add(fn, b)
        else:
            # helper functions of parser.rs passed by name to a combinator of this leaf
            for _, t in b.calls():
                for a in t["args"]:
                    if isinstance(a, dict) and "fn" in a:
                        hp = a.get("res") or a.get("fn") or ""
                        hb = prog.bodies.get(hp)
                        if hb is not None and hp.startswith(S + "parser::") and hp != p and not hp.split("::")[-1] in LEAF_FINGERPRINT:
                            add(fn, hb)
    return out


def placeholder(name):
    n = name.lower()
    if any(x in n for x in ("partition_key", "pk", "event_id", "subscription_id")):
        return UUID
    if "stream" in n:
        return "stream-" + (re.sub(r"\D", "", n) or "1")
    if "name" in n:
        return "Evt"
    if "payload" in n or "metadata" in n:
        return "{}"
    if re.fullmatch(r"p\d*", n) or "partition" in n:
        return "1"
    return "5"


def expand_template(line):
    """`CMD <a> [KW <b>] [X | Y <c>] <d>...` -> list of concrete token lists"""
    s = line.replace("...", " ")
    s = s.replace("[", " [ ").replace("]", " ] ").replace("|", " | ")
    toks = s.split()
    pos = 0

    def seq(stop):
        nonlocal pos
        items = []
        while pos < len(toks) and toks[pos] not in stop:
            t = toks[pos]
            if t == "[":
                pos += 1
                alts = [seq(("|", "]"))]
                while pos < len(toks) and toks[pos] == "|":
                    pos += 1
                    alts.append(seq(("|", "]")))
                pos += 1  # ]
                items.append(("opt", alts))
            else:
                pos += 1
                items.append(("tok", re.sub(r"<([^>]+)>", lambda m: placeholder(m.group(1)), t)))
        return items

    tree = seq(())

    def gen(items):
        outs = [[]]
        for it in items:
            if it[0] == "tok":
                outs = [o + [it[1]] for o in outs]
            else:
                choices = [[]]
                for a in it[1]:
                    choices += gen(a)
                outs = [o + c for o in outs for c in choices]
            if len(outs) > 600:
                outs = outs[:600]
        return outs

    return gen(tree)


class DocRun(G.Run):
    """documentation shorthand: a non-UUID placeholder after a keyword whose value is a UUID (`PARTITION_KEY abc-def`) is read as a UUID"""

    def __init__(self, toks, kws):
        G.Run.__init__(self, toks)
        self.kws = kws

    def parse(self, n, pos):
        if n[0] == "andthen" and n[2] == "uuid":
            ok, c, p2 = self.parse(n[1], pos)
            if not ok:
                return False, c, pos
            if p2 > pos and self.toks[p2 - 1].upper() in self.kws:
                return False, c, pos
            if p2 > pos:
                self.consumed_by[p2 - 1] = ("leaf", "uuid")
            return True, c, p2
        return G.Run.parse(self, n, pos)


def check_tokens(run, top, kws):
    """-> (accepted, [(keyword, leaf that consumed it)], furthest position)"""
    ok, c, p = run.parse(top, 0)
    sw = []
    for i, t in enumerate(run.toks):
        if t is None:
            continue
        who = run.consumed_by.get(i)
        if ok and t.upper() in kws and who and who[0] == "leaf":
            sw.append((t.upper(), who[1]))
    far = max(run.consumed_by) + 1 if run.consumed_by else 0
    return ok, sw, far


def run(chk, facts_dir, tier):
    prog = Program(facts_dir, crates=["sierradb_server-lib", "sierradb_client-lib", "sierradb_protocol-lib"])
    hir = prog.hir("sierradb_server-lib")
    chk.rule("R21.1", "G1 KEYWORD SWALLOWED: in `seq(.., opt/many/many1(P), Q ..)` no keyword that can start Q (or follow the repetition) is accepted by the leaf that reads P's first token")
    chk.rule("R21.2", "G2 COMMIT-FAIL: a repetition/option whose body consumes a token and then fails in `and_then` on a keyword that may follow (or, in a choice, on a token a later "
                      "alternative accepts) must be wrapped in `attempt`: combine's many/optional/choice only recover from errors that consumed nothing")
    chk.rule("R21.3", "G3 DOCUMENTED FORMS: every `# Example(s)` line and every expansion of the `# Syntax` templates of the request types is accepted by the command's parser "
                      "(combine 4.6 commit semantics), with every keyword of the command consumed by a keyword leaf")
    chk.rule("R21.4", "G4 CLIENT FORMS: every token sequence the Rust client can build (all CFG paths through redis::cmd(..).arg(..) chains and the ToRedisArgs impls; loops 1-2 iterations; "
                      "literal -> itself, Uuid -> uuid, integers -> boundary values of their type, caller strings -> wildcard matching any value leaf) is accepted, keywords by keyword leaves")
    chk.rule("R21.5", "G5 TABLES: command names the client emits are dispatched by Command::try_from; ExpectedVersion keywords agree between sierradb-protocol Display/FromStr, the "
                      "server's expected_version() and the client's emission; every dispatched command has a parser and vice versa")
    chk.rule("R21.6", "KEYWORD LEAF: parser.rs::keyword accepts a token iff the whole token equals the keyword ignoring case (`to_uppercase() ==`, `eq_ignore_ascii_case`); a "
                      "comparison of a part of the token (starts_with / zip without a length test / contains) is reported; any other new form is INCONCLUSIVE until it is read")
    chk.not_decided += ["the values carried in the parsed request (that `FROM 50` yields from_version = 50): closures are opaque to the grammar model",
                        "caller-supplied strings are wildcards: `subscribe_to_partitions(\"0-127\")`-style range strings are not judged",
                        "client loops are explored with 1 and 2 iterations (an empty map is assumed to be rejected by the client before emission)"]
    chk.assume("leaf parser semantics (which strings a satisfy_map / and_then closure of parser.rs accepts) are read once and frozen in rules/grammar.py; a structural fingerprint of "
               "each closure (its resolved callees) is compared on every run and a mismatch is INCONCLUSIVE")

    # ---------------- leaf table freshness
    fps = leaf_fingerprints(prog)
    for fn, want in LEAF_FINGERPRINT.items():
        if fn not in fps and not want:
            continue
        got = fps.get(fn)
        if got is None:
            raise Inconclusive("leaf parser parser.rs::%s not found" % fn)
        if fn == "keyword" and got == want:
            chk.ok("R21.6", "keyword(): whole-token comparison (%s)" % "+".join(sorted(got)), "crates/sierradb-server/src/parser.rs")
        if fn == "keyword" and got != want:
            # the accepted idioms of whole-token, case-insensitive equality; and the forms that are known to compare only a part of the token
            if got in KEYWORD_EQUAL_IDIOMS:
                chk.ok("R21.6", "keyword(): whole-token comparison (%s)" % "+".join(sorted(got)), "crates/sierradb-server/src/parser.rs")
                continue
            partial = sorted(got & KEYWORD_PARTIAL) or (["zip"] if "zip" in got and "len" not in got else [])
            if partial:
                kb = prog.bodies.get(S + "parser::keyword")
                chk.fail("R21.6", S + "parser::keyword", "keyword-partial-match", "the keyword leaf compares only a part of the token with the keyword (%s%s): every argument that "
                         "merely starts with a keyword (a stream id `from-archive`, an event name `metadata-index`), a proper prefix of it or the empty string is now read as "
                         "that keyword, in every command" % ("/".join(partial), ": Iterator::zip stops at the shorter side and no lengths are compared" if partial == ["zip"] else ""), kb)
                continue
        if got != want:
            raise Inconclusive("leaf table stale: parser.rs::%s closures now call %s (frozen: %s); re-read it and update rules/grammar.py" % (fn, sorted(got), sorted(want)))

    # ---------------- command table
    tf = prog.body(S + "<request::Command as std::convert::TryFrom<&redis_protocol::resp3::types::BytesFrame>>::try_from")
    names = sorted({c for c in str_consts(tf) if re.fullmatch(r"[A-Z]+", c)})
    if len(names) < 13:
        raise Inconclusive("Command::try_from: only %d command names found" % len(names))
    B = G.Builder(hir)
    tops = {}
    for p in hir:
        m = re.fullmatch(re.escape(S) + r"request::(\w+)::(\w+)::parser", p)
        if m and m.group(1) == m.group(2).lower():
            tops[m.group(2).upper()] = p
    for nm in names:
        if nm not in tops:
            chk.fail("R21.5", S + "request::Command::try_from", "no-parser:" + nm, "command %s is dispatched but no <%s>::parser was found" % (nm, nm), tf)
    for nm in tops:
        if nm not in names:
            chk.fail("R21.5", tops[nm], "not-dispatched:" + nm, "request type has a parser but Command::try_from does not dispatch %s" % nm, tf)
    chk.ok("R21.5", "%d command names dispatched, each with a parser" % len(names), tf.where())
    gram = {}
    for nm, p in sorted(tops.items()):
        node = G.flatten(B.fn(p))
        unk = G.unknowns(node)
        chk.analysed(p)
        if unk:
            chk.notes.append("%s: unmodelled combinators %s (treated as any-string leaves that may commit-fail)" % (nm, unk[:4]))
        gram[nm] = ("seq", [node, ("eof",)])
    # and_then closures outside parser.rs: derive their string predicate from the MIR (exact / case-insensitive comparisons with constants)
    for nm, top in gram.items():
        for commit in token_andthens(top):
            if len(commit) > 3 and commit[3] and not commit[3].startswith(S + "parser::"):
                pred = derive_string_predicate(prog, commit[3])
                if pred is not None:
                    G.DERIVED_ACCEPT[commit[3]] = pred
                    chk.notes.append("%s: acceptance of %s derived from its MIR" % (nm, commit[3]))
    # leaves used must be in the tables
    for nm, top in gram.items():
        for (kind, f, commit) in all_leaves(top):
            if kind == "prim" and f not in G.PRIM_ACCEPT:
                raise Inconclusive("%s uses leaf parser.rs::%s which is not in the frozen leaf table" % (nm, f))
            pass
        for commit in token_andthens(top):
            if G.andthen_accept(commit) is None:
                raise Inconclusive("%s applies an and_then closure (%s) to a single token whose acceptance could not be derived and is not in the frozen leaf table" % (nm, commit[3] if len(commit) > 3 else commit[2]))

    # ---------------- G1 / G2
    n12 = 0
    for nm, top in gram.items():
        body = prog.bodies.get(tops[nm])
        fnd = []
        G.analyse(top, set(), False, fnd, [])
        seen = set()
        for (rule, kw, leaf, commit, ctx, rep) in fnd:
            key = (rule, kw, leaf, commit)
            if key in seen:
                continue
            seen.add(key)
            if rule == "G1":
                chk.fail("R21.1", tops[nm], "%s->%s" % (kw, commit or leaf),
                         "%s: the keyword %s can follow a %s(..) whose first leaf `%s` accepts it as a value: `%s` is taken as a %s instead of starting its clause [%s]" %
                         (nm, kw, rep, commit or leaf, kw, commit or leaf, ctx), body)
            else:
                chk.fail("R21.2", tops[nm], "%s!%s" % (kw, commit),
                         "%s: inside %s(..) the leaf `%s` consumes the following keyword %s and then fails in and_then: a committed error, so the whole command is rejected "
                         "instead of the repetition ending (needs attempt or a satisfy_map leaf) [%s]" % (nm, rep, commit, kw, ctx), body)
        # obligations: one per repetition/option/choice node
        cnt = count_nodes(top)
        n12 += cnt
        alt_shadow(chk, nm, top, tops[nm], body)
        if not [f for f in fnd]:
            chk.ok("R21.1", "%s: %d repetition/option/choice nodes, no following keyword is accepted by a value leaf" % (nm, cnt), body.where() if body else "")
    chk.floor("R21.1", n12, 20)

    # ---------------- G3
    n_ex = n_tpl = 0
    for nm, p in sorted(tops.items()):
        ty = p.rsplit("::", 1)[0]
        doc = prog.docs.get(ty, "")
        body = prog.bodies.get(p)
        kws = G.all_keywords(gram[nm])
        ex, tpl = doc_blocks(doc)
        reported = set()
        for line in ex:
            try:
                toks = shlex.split(line)
            except ValueError:
                toks = line.split()
            if not toks or toks[0].upper() != nm:
                continue
            n_ex += 1
            judge(chk, "R21.3", nm, p, body, gram[nm], kws, toks[1:], "example `%s`" % line, reported, DocRun(toks[1:], kws))
        for line in tpl:
            forms = expand_template(line)
            for toks in forms:
                if not toks or toks[0].upper() != nm:
                    continue
                n_tpl += 1
                judge(chk, "R21.3", nm, p, body, gram[nm], kws, toks[1:], "syntax form `%s`" % " ".join(toks), reported, DocRun(toks[1:], kws))
        if not reported:
            chk.ok("R21.3", "%s: %d examples and the syntax expansions parse with keywords in keyword position" % (nm, len(ex)), body.where() if body else "")
    chk.floor("R21.3", n_ex, 25)
    chk.floor("R21.3/templates", n_tpl, 150)

    # ---------------- G4
    E = G.Emitter(prog, max_paths=600)
    seen_forms = set()
    n_forms = 0
    entry = 0
    reported = {}
    for p, b in sorted(prog.bodies.items()):
        if not p.startswith("sierradb_client::"):
            continue
        cmds = E.commands(b)
        if not cmds:
            continue
        entry += 1
        chk.analysed(p)
        for line, toks in cmds:
            if not toks or toks[0][0] != "lit":
                chk.fail("R21.4", b.root or b.path, "dynamic-command-name", "the command name is not a literal", b, line)
                continue
            shape = tuple(t if t[0] != "wild" else ("wild",) for t in toks)
            if (line, shape) in seen_forms:
                continue
            seen_forms.add((line, shape))
            n_forms += 1
            nm = toks[0][1].upper()
            if nm not in gram:
                chk.fail("R21.5", b.root or b.path, "unknown-command:" + nm, "the client emits %s which Command::try_from does not dispatch" % nm, b, line)
                continue
            kws = G.all_keywords(gram[nm])
            for variant in num_variants(toks[1:]):
                r = G.WildRun(variant)
                # numeric boundary: replace the sample by the type's maximum
                agg = reported.setdefault(nm, {})
                judge(chk, "R21.4", nm, tops[nm], b, gram[nm], kws, r.toks, "client form `%s` (%s:%s %s)" % (fmt_toks(toks), b.file.rsplit("/", 1)[-1], line, (b.root or b.path).rsplit("::", 1)[-1]), agg, r, line, collect=True)
    chk.floor("R21.4", n_forms, 60)
    chk.floor("R21.4/entry-points", entry, 40)
    for nm, agg in sorted(reported.items()):
        for inst, sites in sorted(agg.items()):
            chk.fail("R21.4", tops[nm], "%s:%s" % (nm, inst), "%s [%d client forms, e.g. %s]" % (sites[0][0], len(sites), "; ".join(x[1] for x in sites[:4])), sites[0][2], sites[0][3])
    chk.ok("R21.4", "%d distinct client forms from %d bodies checked" % (n_forms, entry), "")
    for n in E.notes[:5]:
        chk.notes.append(n)

    # ---------------- G5 expected-version keywords
    ev = G.flatten(B.fn(S + "parser::expected_version"))
    server_kw = G.all_keywords(ev)
    disp = [c for p, b in prog.bodies.items() if p.startswith("sierradb_protocol::<ExpectedVersion as std::fmt::Display>::fmt") for c in str_consts(b)]
    disp_kw = {c.upper() for c in disp if re.fullmatch(r"[A-Za-z]+", c)}
    if not disp_kw:
        raise Inconclusive("ExpectedVersion Display keywords not found")
    if disp_kw <= server_kw:
        chk.ok("R21.5", "ExpectedVersion Display keywords %s are all accepted by expected_version() %s" % (sorted(disp_kw), sorted(server_kw)), "")
    else:
        chk.fail("R21.5", S + "parser::expected_version", "keywords:" + ",".join(sorted(disp_kw - server_kw)),
                 "sierradb-protocol prints expected versions as %s but the server's parser only knows %s" % (sorted(disp_kw), sorted(server_kw)), prog.bodies.get(S + "parser::expected_version"))
    return {}


def fmt_toks(toks):
    return " ".join(t[1] if t[0] == "lit" else "<%s>" % (t[1] if t[0] == "num" else t[0]) for t in toks)


def num_variants(toks):
    """two concrete instantiations: small numbers, and each integer at the maximum of its client-side type"""
    lo = [t for t in toks]
    yield lo
    if any(t[0] == "num" for t in toks):
        yield [("lit", str(G.INT_MAX[t[1]])) if t[0] == "num" else t for t in toks]


def judge(chk, rule, nm, fn, body, top, kws, toks, what, reported, runner, line=None, collect=False):
    ok, sw, far = check_tokens(runner, top, kws)
    if collect:
        if not ok:
            tok = runner.toks[far] if far < len(runner.toks) else "<end>"
            reported.setdefault("rejected@%d:%s" % (far + 1, tok_kind(tok, kws)), []).append(("the client emits a form that %s's parser rejects at argument %d (%s)" % (nm, far + 1, tok), what, body, line))
        for kw, leaf in (sw if ok else []):
            reported.setdefault("%s->%s" % (kw, leaf), []).append(("the client emits the keyword %s where %s's parser reads a value (`%s` leaf)" % (kw, nm, leaf), what, body, line))
        if ok and not sw:
            chk.ok(rule, "%s accepted" % what[:100], body.where(line) if body else "")
        return
    if not ok:
        tok = runner.toks[far] if far < len(runner.toks) else "<end>"
        inst = "rejected@%d:%s" % (far + 1, tok_kind(tok, kws))
        if inst not in reported:
            reported.add(inst)
            chk.fail(rule, fn if rule == "R21.4" else fn, "%s:%s" % (nm, inst),
                     "%s is rejected by %s's parser at argument %d (%s)" % (what, nm, far + 1, tok), body, line)
        return
    for kw, leaf in sw:
        inst = "%s->%s" % (kw, leaf)
        if inst not in reported:
            reported.add(inst)
            chk.fail(rule, fn, "%s:%s" % (nm, inst), "%s: the keyword %s is consumed by the value leaf `%s`, not by a keyword" % (what, kw, leaf), body, line)
    if not sw:
        chk.ok(rule, "%s accepted" % what[:90], body.where(line) if body else "")


def tok_kind(tok, kws):
    if tok is None:
        return "wild"
    if tok == UUID:
        return "uuid"
    if str(tok).isdigit():
        return "number"
    if str(tok).upper() in kws:
        return "keyword:" + str(tok).upper()
    return "end" if tok == "<end>" else "string"


def doc_blocks(doc):
    ex, tpl = [], []
    section = None
    inb = False
    for raw in doc.splitlines():
        line = raw.strip()
        if line.startswith("# ") and not inb:
            h = line[2:].strip().lower()
            section = "ex" if h.startswith("example") else ("tpl" if h.startswith("syntax") else None)
            continue
        if line.startswith("```"):
            inb = not inb
            continue
        if not inb or not line or line.startswith("#"):
            continue
        line = re.split(r"\s{2,}#", line)[0].strip()
        if section == "ex":
            ex.append(line)
        elif section == "tpl":
            tpl.append(line)
    return ex, tpl


def all_leaves(n, acc=None, commit=None):
    acc = [] if acc is None else acc
    k = n[0]
    if k == "prim":
        acc.append(("prim", n[1], commit))
    elif k == "fn":
        all_leaves(n[2], acc, commit)
    elif k == "andthen":
        all_leaves(n[1], acc, n if G.single_token(n[1]) else commit)
    elif k in ("seq", "alt"):
        for c in n[1]:
            all_leaves(c, acc, commit)
    elif k in ("opt", "many", "many1", "attempt"):
        all_leaves(n[1], acc, commit)
    return acc


def token_andthens(n, acc=None):
    """every and_then node that is applied to a single token (its closure decides whether that token is accepted)"""
    acc = [] if acc is None else acc
    k = n[0]
    if k == "fn":
        token_andthens(n[2], acc)
    elif k == "andthen":
        if G.single_token(n[1]):
            acc.append(n)
        token_andthens(n[1], acc)
    elif k in ("seq", "alt"):
        for c in n[1]:
            token_andthens(c, acc)
    elif k in ("opt", "many", "many1", "attempt", "not"):
        token_andthens(n[1], acc)
    return acc


def count_nodes(n):
    k = n[0]
    if k == "fn":
        return count_nodes(n[2])
    if k in ("seq", "alt"):
        return (1 if k == "alt" else 0) + sum(count_nodes(c) for c in n[1])
    if k in ("opt", "many", "many1"):
        return 1 + count_nodes(n[1])
    if k in ("attempt", "andthen"):
        return count_nodes(n[1])
    return 0


PROBES = ["5", "0", "65536", "1,2", "1=5", "s=5", "x", "-5", UUID]


def alt_shadow(chk, nm, top, fn, body):
    """G2 for choices: a non-last alternative that consumes a token and then fails (no attempt) hides every later alternative
    that would accept the same input. Decided by running each alternative on `<probe> <any> <any> <any>`."""
    def sim(n, tok):
        r = G.WildRun([("lit", tok), ("wild",), ("wild",), ("wild",)])
        ok, cons, p2 = r.parse(n, 0)
        return ok, cons, r

    def walk(n, ctx):
        k = n[0]
        if k == "fn":
            walk(n[2], ctx + [n[1]])
        elif k == "alt":
            alts = n[1]
            for i, c in enumerate(alts[:-1]):
                later = alts[i + 1:]
                probes = PROBES + sorted(G.all_keywords(("alt", later)))
                for tok in probes:
                    ok, cons, r = sim(c, tok)
                    if not ok and cons and any(sim(d, tok)[0] for d in later):
                        chk.fail("R21.2", fn, "choice-shadow:%s:%s" % ("/".join(ctx[-2:]), tok if tok != UUID else "uuid"),
                                 "%s: in a choice, an earlier alternative consumes `%s` and then fails (in `%s`, committed), so the later alternative that accepts `%s` is never tried; "
                                 "wrap the earlier alternative in attempt [%s]" % (nm, tok, r.failed_in, tok, "/".join(ctx)), body)
                        break
            for c in alts:
                walk(c, ctx)
        elif k == "seq":
            for c in n[1]:
                walk(c, ctx)
        elif k in ("opt", "many", "many1", "attempt", "andthen"):
            walk(n[1], ctx)

    walk(top, [])


STR_PLUMBING = ("deref", "as_ref", "as_str", "borrow", "into", "from", "message_format", "message_static_message", "to_string", "new", "new_display", "format", "must_use",
                "unexpected_format", "expected_format", "clone", "map_err", "ok_or", "ok_or_else", "unexpected_static_message", "expected_static_message",
                "unexpected", "expected", "message", "unexpected_token", "other")


def derive_string_predicate(prog, closure_path):
    """closure |s| -> Result: if it only compares s (exactly or ignoring ASCII case) with string constants and returns Err on a match,
    return accept(str); else None"""
    from ..gate import switch_on, edge_dominates
    from ..util import ok_return_blocks
    b = prog.bodies.get(closure_path)
    if b is None:
        return None
    errs = [i for i, j, s in b.assigns() if s["lhs"]["l"] == 0 and not s["lhs"]["p"] and s["rv"]["k"] == "agg" and s["rv"]["ak"].endswith("Result::Err")]
    oks = [i for i, s in ok_return_blocks(b)]
    if not errs or not oks:
        return None
    exact, ci = set(), set()
    from ..flow import Ev, strip
    ev = Ev(prog, b)

    def const_args(bi, t):
        out = []
        for a in t["args"]:
            if "c" in a and '"' in str(a.get("c")):
                out.append({"c": str(a["c"])})
                continue
            term = strip(ev.operand(a, (bi, "T")))
            if term[0] == "const" and '"' in str(term[1]):
                out.append({"c": str(term[1])})
        return out

    for bi, t in b.calls():
        c = b.callee_decl(t) or ""
        last = c.rsplit("::", 1)[-1]
        consts = const_args(bi, t)
        if last in ("eq", "ne") and ("PartialEq" in c) and consts:
            K = re.search(r'"((?:[^"\\]|\\.)*)"', consts[0]["c"]).group(1)
            sw = switch_on(b, t["target"], t["dest"]["l"]) if t.get("target") is not None else None
            if not sw:
                return None
            eq_edge = sw[0] if last == "eq" else sw[1]
            reaches_err = any(e in (b.reach_from([eq_edge]) | {eq_edge}) for e in errs)
            reaches_ok = any(o in (b.reach_from([eq_edge]) | {eq_edge}) for o in oks)
            if reaches_err and not reaches_ok:
                exact.add(K)
            elif reaches_ok and not reaches_err:
                continue      # accepted when equal: no restriction from this comparison
            else:
                return None
        elif last == "eq_ignore_ascii_case" and consts:
            K = re.search(r'"((?:[^"\\]|\\.)*)"', consts[0]["c"]).group(1)
            sw = switch_on(b, t["target"], t["dest"]["l"]) if t.get("target") is not None else None
            if not sw:
                return None
            reaches_err = any(e in (b.reach_from([sw[0]]) | {sw[0]}) for e in errs)
            reaches_ok = any(o in (b.reach_from([sw[0]]) | {sw[0]}) for o in oks)
            if reaches_err and not reaches_ok:
                ci.add(K.lower())
            elif not reaches_err:
                continue
            else:
                return None
        elif last in STR_PLUMBING or "fmt" in c or "Arguments" in c:
            continue
        else:
            return None
    if not exact and not ci:
        return None
    return lambda s_: s_ not in exact and s_.lower() not in ci
