"""C05 - a crash at any point recovers to a consistent committed prefix (R5.1-R5.4, R1.7)."""
from ..facts import Program, Inconclusive, op_place
from ..flow import Ev, walk, resolve_upvars, show, strip
from ..util import calls, field_stores, ok_return_blocks, must_pass, follow_copies, receiver_call_sites
from . import c01

SEG = "seglog::write::Writer::<H>::"
WTP = "sierradb::writer_thread_pool::"
HYDRATES = {
    "event": "sierradb::bucket::event_index::OpenEventIndex::hydrate",
    "partition": "sierradb::bucket::partition_index::open::OpenPartitionIndex::hydrate",
    "stream": "sierradb::bucket::stream_index::open::OpenStreamIndex::hydrate",
}
SCAN_CALLS = ("seglog::read::Reader::<H>::read_record", "seglog::read::Iter::<'_, H>::next_record", "seglog::read::Reader::<H>::read_record_sequential")


WRAPPERS = ("Try>::branch", "Try::branch", "From>::from", "From::from", "Into>::into", "Into::into", "::map_err", "FromResidual::from_residual")


def scan_call_in(term, depth=0):
    """is the (error) value directly produced by the record scan? Only projections and
    error-conversion wrappers are looked through; arguments of other calls are not."""
    t = strip(term)
    if depth > 12 or not isinstance(t, tuple) or not t:
        return False
    if t[0] in ("variant", "field", "partial", "index"):
        return scan_call_in(t[1], depth + 1)
    if t[0] == "phi":
        return any(scan_call_in(a, depth + 1) for a in t[1])
    if t[0] == "agg":
        return any(scan_call_in(a, depth + 1) for a in t[2])
    if t[0] == "call":
        if t[1] in SCAN_CALLS or t[1].endswith("::next_record") or t[1].endswith("Reader::<H>::read_record"):
            return True
        last = t[1].rsplit("::", 1)[-1]
        if (last in ("branch", "from", "into", "map_err", "from_residual", "clone") or any(t[1].endswith(w) for w in WRAPPERS)) and t[2]:
            return scan_call_in(t[2][0], depth + 1)
    return False


def run(chk, facts_dir, tier):
    prog = Program(facts_dir, crates=["sierradb-lib", "seglog-lib"])
    chk.rule("R5.1", "HYDRATION SOURCE: the entries Open*Index::hydrate inserts come from a commit-aware iteration (next_committed_events), or the live "
                     "segment is truncated to its last committed transaction before hydration; uncommitted events must not enter the indexes")
    chk.rule("R5.2", "RECOVERY CURSOR: in seglog Writer::open the write offset is the start offset or a value assigned on the success edge of the record scan only")
    chk.rule("R5.3", "Every live index published by Worker::new was hydrated from the segment first")
    chk.rule("R5.4", "ERROR DISCIPLINE: Writer::open fails only for real I/O errors; a checksum mismatch, out-of-bounds read or truncation marker met by the "
                     "recovery scan ends the scan (a torn last record is the normal state after a crash) and never reaches an Err return")
    chk.not_decided += ["the enumeration of crash points itself", "which byte prefixes are detected as torn (CRC arithmetic, C17)"]

    # ---------------- R5.1
    wn = prog.body(WTP + "Worker::new")
    chk.analysed(wn.path)
    trunc_before = False  # accepted alternative
    wev = Ev(prog, wn)
    for bi, t in calls(wn, "set_len", suffix=True):
        arg = wev.operand(t["args"][1], (bi, "T"))
        if any(isinstance(x, tuple) and x and x[0] == "call" and "committed" in x[1] for x in walk(arg)):
            hy = [b for k in HYDRATES.values() for b, _ in calls(wn, k)]
            if hy and all(wn.dominates(bi, h) for h in hy):
                trunc_before = True
    for kind, path in HYDRATES.items():
        b = prog.body(path)
        chk.analysed(b.path)
        ev = Ev(prog, b)
        ins = [(bi, t) for bi, t in b.calls() if (b.callee_decl(t) or "").endswith("::insert") and "Index" in (b.callee_decl(t) or "")]
        if not ins:
            raise Inconclusive("%s: no insert call" % path)
        src_committed = True
        src_desc = ""
        for bi, t in ins:
            for a in t["args"][1:]:
                term = ev.operand(a, (bi, "T"))
                names = {x[1].rsplit("::", 1)[-1] for x in walk(term) if isinstance(x, tuple) and x and x[0] == "call"}
                if "next_record" in names and not any("committed" in n for n in names):
                    src_committed = False
                    src_desc = "next_record"
        if src_committed or trunc_before:
            chk.ok("R5.1", "%s index hydrated from committed transactions only" % kind, b.where())
        else:
            chk.fail("R5.1", path, "uncommitted-indexed", "hydrate inserts every event record of the segment (%s), including events of a transaction whose commit record "
                     "was never written: after a crash they are served by scans, advance the next partition sequence and make scans fail" % src_desc, b, ins[0][1]["line"])

    # ---------------- R5.3
    okh = 0
    for i, j, s in wn.assigns():
        if s["rv"]["k"] == "agg" and s["rv"]["ak"] == "adt:" + WTP + "LiveIndexSet":
            for fname, op in zip(s["rv"]["fields"], s["rv"]["ops"]):
                p = op_place(op)
                l = p["l"] if p else None
                # step back through unnamed temporaries to the user variable
                for _ in range(4):
                    if l is None or wn.locals[l]["n"]:
                        break
                    ds = [d for d in wn.defs.get(l, []) if not d[2]["p"] and d[3]["k"] == "use"]
                    q = op_place(ds[0][3]["op"]) if len(ds) == 1 else None
                    l = q["l"] if q and not q["p"] else None
                hyd = False
                for k in HYDRATES.values():
                    for bi, rl, _line in receiver_call_sites(prog, wn, k):
                        if rl == l and wn.dominates(bi, i):
                            hyd = True
                if hyd:
                    okh += 1
                    chk.ok("R5.3", "LiveIndexSet.%s was hydrated before publication" % fname, wn.where(s["line"]))
                else:
                    chk.fail("R5.3", WTP + "Worker::new", "unhydrated:" + fname, "the live %s is published without having been hydrated from the segment" % fname, wn, s["line"])
    chk.floor("R5.3", okh, 3)

    # ---------------- R5.2 / R5.4
    ob = prog.body(SEG + "open")
    chk.analysed(ob.path)
    oev = Ev(prog, ob)
    scans = [(bi, t) for bi, t in ob.calls() if (ob.callee_decl(t) or "") in SCAN_CALLS or (ob.callee_decl(t) or "").endswith("::next_record")]
    if not scans:
        raise Inconclusive("Writer::open: recovery scan call not found")
    sb, st = scans[0]
    # the first switch on a discriminant after the scan call (match or `?`): err successor
    err_succ = None
    blk = st["target"]
    seen = set()
    while blk is not None and blk not in seen and len(seen) < 8:
        seen.add(blk)
        tt = ob.term(blk)
        if tt["k"] == "switch":
            for v, tgt in tt["targets"]:
                if v == "1":
                    err_succ = tgt
            break
        blk = tt.get("target") if tt["k"] in ("goto", "call", "drop") else None
    if err_succ is None:
        raise Inconclusive("Writer::open: cannot find the error edge of the recovery scan")
    err_region = ob.reach_from([err_succ], avoid=frozenset([sb]))
    wo_defs = []
    for i, j, s in ob.assigns():
        if s["rv"]["k"] == "agg" and s["rv"]["ak"] == "adt:seglog::write::Writer":
            p = op_place(s["rv"]["ops"][s["rv"]["fields"].index("write_offset")])
            l = follow_copies(ob, p["l"])
            wo_defs = [d for d in ob.defs.get(l, []) if not d[2]["p"]]
    if not wo_defs:
        raise Inconclusive("Writer::open: definitions of the stored write offset not found")
    bad = False
    for (bi, si, lhs, rv) in wo_defs:
        term = strip(oev._rvalue(rv, (bi, si), 0))
        if term[0] == "param":
            continue
        if bi in err_region:
            bad = True
            chk.fail("R5.2", SEG + "open", "offset-on-error-edge", "the recovered write offset is advanced on the error edge of the record scan: bytes of a torn or corrupt record become part of the log", ob, ob.stmts(bi)[si]["line"])
    if not bad:
        chk.ok("R5.2", "write offset only advanced on the success edge of the scan", ob.where(st["line"]))
    # R5.4: Err returns whose value derives from the scan must go through the Io variant
    n_err = 0
    for bi, t in ob.calls():
        c = ob.callee_decl(t) or ""
        if c.endswith("FromResidual::from_residual") and t["dest"]["l"] == 0:
            term = oev.operand(t["args"][0], (bi, "T"))
            if scan_call_in(term):
                n_err += 1
                chk.fail("R5.4", SEG + "open", "scan-error-propagated", "an error of the recovery scan is propagated with `?`: a checksum mismatch (torn last record after a crash), "
                         "an out-of-bounds read or a truncation marker makes reopening fail instead of ending the scan", ob, t["line"])
    for i, j, s in ob.assigns():
        if s["lhs"]["l"] == 0 and not s["lhs"]["p"] and s["rv"]["k"] == "agg" and s["rv"]["ak"].endswith("Result::Err"):
            term = oev.operand(s["rv"]["ops"][0], (i, j))
            if scan_call_in(term):
                n_err += 1
                if any(isinstance(x, tuple) and x and x[0] == "variant" and x[2] == "Io" for x in walk(term)):
                    chk.ok("R5.4", "only ReadError::Io of the scan is returned as an error", ob.where(s["line"]))
                else:
                    chk.fail("R5.4", SEG + "open", "scan-error-returned", "a non-I/O error of the recovery scan is returned from open: %s" % show(term)[:100], ob, s["line"])
    # the three non-I/O variants must end the scan: their arms must not reach an abnormal exit either
    chk.floor("R5.4", n_err, 1)
    # ---------------- R1.7 (shared with C01)
    c01.check_truncation_marker(chk, prog, "R1.7")
    # ---------------- R5.5 after a reopen the writer continues from the NEWEST sealed segment
    chk.rule("R5.5", "CONTINUE FROM THE NEWEST SEGMENT: the writer's fallback lookups of a stream's latest version and a partition's latest sequence - the only source of the next "
                     "version / sequence after a reopen, when the in-memory cache is empty - walk the sealed segments newest first; otherwise the first append after recovery "
                     "re-uses sequences that acknowledged events already hold (shared with C02 R2.3)")
    from . import c02
    sprog = prog if "sierradb::writer_thread_pool::WriterSet::read_partition_latest_sequence" in prog.bodies else Program(facts_dir, crates=["sierradb-lib"])
    c02.newest_first(chk, sprog, "R5.5", (c02.WS + "read_stream_latest_version", c02.WS + "read_partition_latest_sequence"), 2)
    live_segment_agreement(chk, sprog, "R5.6")
    return {}


def _reads_field(body, name, owner_sub):
    for bl in body.blocks:
        for pr in _projections([bl["s"], bl["t"]]):
            if pr.get("n") == name and owner_sub in str(pr.get("o", "")):
                return True
    return False


def _projections(x, out=None):
    out = [] if out is None else out
    if isinstance(x, dict):
        if "n" in x and "o" in x and "f" in x:
            out.append(x)
        for v in x.values():
            _projections(v, out)
    elif isinstance(x, list):
        for v in x:
            _projections(v, out)
    return out


def live_segment_agreement(chk, prog, rule):
    """R5.6 (found D26)"""
    chk.rule(rule, "LIVE SEGMENT AGREEMENT: the reopen scan (DatabaseBuilder::open) and the writer (BucketSegmentWriter::latest) pick the live segment of a bucket by the same "
                   "criterion - the newest segment directory that holds an events file. A crash during rollover between creating the next segment's directory and its events "
                   "file leaves an empty directory: if the scan counts it, the real live segment is loaded as a sealed one (through Closed*Index::open on index files that were "
                   "never flushed) and reopening fails")
    LATEST = "sierradb::bucket::segment::writer::BucketSegmentWriter::latest"
    OPEN = "sierradb::database::DatabaseBuilder::open"
    lfam = prog.family(LATEST) if LATEST in prog.bodies else []
    if not lfam:
        raise Inconclusive("BucketSegmentWriter::latest not found")
    for b in lfam:
        chk.analysed(b.path)
    writer_checks = any((b.callee_decl(t) or "").rsplit("::", 1)[-1] in ("exists", "try_exists", "is_file", "metadata", "symlink_metadata")
                        for b in lfam for _, t in b.calls())
    ob = prog.body(OPEN)
    ofam = prog.family(OPEN)
    chk.analysed(ob.path)
    oev = Ev(prog, ob)
    by_path = {b.path: b for b in ofam}
    folds = []
    for bi, t in ob.calls():
        c = ob.callee_decl(t) or ""
        if c.endswith("Iterator::fold") and len(t["args"]) >= 3:
            cl = strip(oev.operand(t["args"][2], (bi, "T")))
            if cl[0] == "agg" and str(cl[1]).startswith("closure:"):
                cb = by_path.get(str(cl[1]).split(":", 1)[1])
                fam2 = [cb] + prog.children(cb.path) if cb is not None else []
                if any((x.callee_decl(t2) or "").rsplit("::", 1)[-1] == "max" for x in fam2 for _, t2 in x.calls()) or \
                        any("segment_id" in str(p_.get("n")) for x in fam2 for bl in x.blocks for p_ in _projections([bl["s"], bl["t"]])):
                    folds.append((bi, t, fam2))
    if not folds:
        # loop form: `for (id, files) in segments.iter() { if files.events.is_none() { continue } latest.entry(..).and_modify(max).or_insert(..) }` in open itself
        from ..gate import edge_dominates
        sites = []
        for bi, t in ob.calls():
            c = ob.callee_decl(t) or ""
            if c.rsplit("::", 1)[-1] == "and_modify" and len(t["args"]) >= 2:
                cl = strip(oev.operand(t["args"][1], (bi, "T")))
                cb = by_path.get(str(cl[1]).split(":", 1)[1]) if cl[0] == "agg" and str(cl[1]).startswith("closure:") else None
                if cb is not None and any((cb.callee_decl(t2) or "").rsplit("::", 1)[-1] == "max" for _, t2 in cb.calls()):
                    sites.append((bi, t))
        if not sites:
            raise Inconclusive("DatabaseBuilder::open: the computation of the newest segment per bucket (a fold or loop with max over segment ids) was not found; re-read it")
        for bi, t in sites:
            gated = False
            for sb, bl in enumerate(ob.blocks):
                tt = bl["t"]
                if tt["k"] != "switch":
                    continue
                cond = oev.operand(tt["op"], (sb, "T"))
                if not any(isinstance(x, tuple) and x and x[0] == "field" and x[2] == "events" and "UnopenedFileSet" in str(x[3]) for x in walk(cond)):
                    continue
                dsts = [d for _, d in tt["targets"]] + [tt["otherwise"]]
                if any(d is not None and edge_dominates(ob, sb, d, bi) for d in dsts):
                    gated = True
            if gated == writer_checks:
                chk.ok(rule, "both sides take the newest segment %s" % ("that has an events file" if gated else "directory"), ob.where(t["line"]))
            else:
                chk.fail(rule, OPEN, "live-segment-criterion", "the reopen scan takes the newest segment %s as the live one, the writer the newest %s: after a crash between creating "
                         "a segment's directory and its events file they disagree, the live segment is loaded as sealed and open fails" % (
                             "with an events file" if gated else "directory", "with an events file" if writer_checks else "directory"), ob, t["line"])
        chk.floor(rule, len(sites), 1)
        return
    for bi, t, fam2 in folds:
        recv = oev.operand(t["args"][0], (bi, "T"))
        filt = []
        for x in walk(recv):
            if isinstance(x, tuple) and x and x[0] == "agg" and str(x[1]).startswith("closure:"):
                fb = by_path.get(str(x[1]).split(":", 1)[1])
                if fb is not None:
                    filt.append(fb)
        scan_checks = any(_reads_field(x, "events", "UnopenedFileSet") for x in filt + fam2)
        if scan_checks == writer_checks:
            chk.ok(rule, "both sides take the newest segment %s" % ("that has an events file" if scan_checks else "directory"), ob.where(t["line"]))
        else:
            chk.fail(rule, OPEN, "live-segment-criterion", "the reopen scan takes the newest segment %s as the live one, the writer the newest %s: after a crash between creating "
                     "a segment's directory and its events file they disagree, the live segment is loaded as sealed and open fails" % (
                         "with an events file" if scan_checks else "directory", "with an events file" if writer_checks else "directory"), ob, t["line"])
    chk.floor(rule, len(folds), 1)
