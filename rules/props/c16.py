"""C16 - concurrent conflicting appends are serialised (R16.1-R16.4)."""
from ..facts import Program, Inconclusive, op_place
from ..flow import Ev, walk, show, strip
from ..util import sites_via_helpers, private_wrappers, calls, field_stores, try_continue_block

WTP = "sierradb::writer_thread_pool::"
WS = WTP + "WriterSet::"
BSW = "sierradb::bucket::segment::writer::BucketSegmentWriter::"
HM_MUT = ("insert", "remove", "clear", "retain", "entry", "drain", "get_mut", "remove_entry", "extend", "values_mut", "iter_mut", "try_insert")


def has_field(term, name, owner_sub=""):
    return any(isinstance(x, tuple) and x and x[0] == "field" and x[2] == name and owner_sub in x[3] for x in walk(term))


def check_sequence_cache(chk, prog, rule):
    """the cache of next partition sequences is the only record of un-synced appends: it is only ever written by
    an insert in handle_write after the last fallible append; nothing removes from it"""
    n = 0
    hw = prog.body(WS + "handle_write")
    ac = sites_via_helpers(prog, hw, BSW + "append_commit")
    ae = sites_via_helpers(prog, hw, BSW + "append_event")
    for b in prog.bodies.values():
        if b.crate != "sierradb-lib":
            continue
        ev = None
        for bi, t in b.calls():
            c = b.callee_decl(t) or ""
            if "HashMap" not in c or c.rsplit("::", 1)[-1] not in HM_MUT or not t["args"]:
                continue
            ev = ev or Ev(prog, b)
            recv = ev.operand(t["args"][0], (bi, "T"))
            if not has_field(recv, "next_partition_sequences", "WriterSet"):
                continue
            n += 1
            name = c.rsplit("::", 1)[-1]
            r = b.root or b.path
            if name != "insert" or r != WS + "handle_write":
                chk.fail(rule, r, "sequence-cache-mutated:" + name, "the cache of next partition sequences is modified by %s outside the success path of handle_write: it is the only "
                         "record of appends that are written but not yet synced into the live index, so after this a conflicting append can be validated against a stale "
                         "sequence and two appends succeed with the same expected sequence" % name, b, t["line"])
                continue
            # after the last fallible append: not followed by append_event/append_commit, and dominated by the commit's success when a commit is written
            after = b.reach_after([bi])
            if any(x[0] in after for x in ae + ac):
                chk.fail(rule, r, "sequence-cache-early", "the next partition sequence is recorded before the transaction's last record is appended: a failed append leaves it advanced", b, t["line"])
            else:
                chk.ok(rule, "next_partition_sequences.insert after the last fallible append", b.where(t["line"]))
    chk.floor(rule + "-cache", n, 1)
    for b in prog.bodies.values():
        for i, j, s in field_stores(b, "next_partition_sequences", "WriterSet"):
            chk.fail(rule, b.root or b.path, "sequence-cache-replaced", "the cache of next partition sequences is replaced wholesale", b, s["line"])


def run(chk, facts_dir, tier):
    prog = Program(facts_dir, crates=["sierradb-lib"])
    chk.rule("R16.1", "SINGLE WRITER: WriterSet::{handle_write, validate_event_versions, rollover, sync} are called only from Worker / WriterSet methods; Worker::run is only "
                      "referenced by the thread spawned in WriterThreadPool::new; BucketSegmentWriter and seglog Writer are not Clone")
    chk.rule("R16.2", "ATOMIC VALIDATE-THEN-WRITE: handle_append_events is synchronous (not a coroutine) and receives from no channel between validation and write")
    chk.rule("R16.3", "SINGLE ROUTING: append_events and Worker::new both obtain the owning thread from bucket_id_to_thread_id")
    chk.rule("R16.5", "PENDING ENTRIES: the un-synced index entries that validate_event_versions consults (pending_indexes) and the unflushed-event counter are only touched after the "
                      "transaction's last fallible append: a write that fails half way is rolled back in the file only, so anything recorded earlier would make later validations "
                      "judge appends against versions that were never written")
    chk.rule("R16.4", "SEQUENCE CACHE: next_partition_sequences is only written by insert in handle_write after the last fallible append; nothing removes entries")
    chk.not_decided += ["the interleaving space itself; the rules decide that validation and write of one bucket can only run on one thread, one request at a time"]

    # R16.1
    callers = prog.callers()
    for fn in ("handle_write", "validate_event_versions", "rollover", "sync", "sync_if_necessary", "next_partition_sequence"):
        for b, bi in callers.get(WS + fn, []):
            r = b.root or b.path
            if r.startswith(WTP + "Worker::") or r.startswith(WS):
                chk.ok("R16.1", "%s called from %s" % (fn, r.split("::")[-2] + "::" + r.split("::")[-1]), b.where(b.term(bi)["line"]))
            else:
                chk.fail("R16.1", r, "writer-set-caller:" + fn, "WriterSet::%s is called from outside the worker thread's code" % fn, b, b.term(bi)["line"])
    refs = prog.fn_refs(WTP + "Worker::run") + callers.get(WTP + "Worker::run", [])
    roots = {(b.root or b.path) for b, bi in refs}
    if roots == {WTP + "WriterThreadPool::new"}:
        chk.ok("R16.1", "Worker::run only referenced from the spawn in WriterThreadPool::new", "")
    else:
        chk.fail("R16.1", sorted(roots - {WTP + "WriterThreadPool::new"})[0] if roots - {WTP + "WriterThreadPool::new"} else WTP + "WriterThreadPool::new",
                 "worker-run-ref", "Worker::run is referenced from %s" % sorted(roots), None)
    for im in prog.impls:
        if im.get("trait") in ("std::clone::Clone", "Clone") and ("BucketSegmentWriter" in im["self"] or "WriterSet" in im["self"] or im["self"].startswith("writer_thread_pool::Worker")):
            chk.fail("R16.1", im["self"], "writer-clone", "%s implements Clone: a second writer for the same bucket can exist" % im["self"], None)
    chk.ok("R16.1", "BucketSegmentWriter / WriterSet / Worker are not Clone", "")

    # R16.2
    hb = prog.body(WTP + "Worker::handle_append_events")
    chk.analysed(hb.path)
    if hb.is_coroutine:
        chk.fail("R16.2", hb.path, "async-validate", "handle_append_events became async: validation and write of two requests can interleave", hb)
    val = calls(hb, WS + "validate_event_versions")
    hw = calls(hb, WS + "handle_write")
    recvs = [t for bi, t in hb.calls() if any(x in (hb.callee_decl(t) or "") for x in ("::recv", "blocking_recv", "::lock", "block_on"))]
    if len(val) == 1 and len(hw) == 1 and hb.dominates(val[0][0], hw[0][0]) and not recvs and not hb.is_coroutine:
        chk.ok("R16.2", "validate_event_versions dominates handle_write; nothing in between waits on a channel", hb.where(hw[0][1]["line"]))
    else:
        chk.fail("R16.2", hb.path, "validate-write-split", "validation does not directly precede the write on the worker thread (validate=%d write=%d waits=%d)" % (len(val), len(hw), len(recvs)), hb)
    # validate takes &self (cannot change writer state)
    vb = prog.body(WS + "validate_event_versions")
    if vb.local_ty(1).startswith("&") and not vb.local_ty(1).startswith("&mut"):
        chk.ok("R16.2", "validate_event_versions takes &self", vb.where())
    else:
        chk.fail("R16.2", vb.path, "validate-mutates", "validate_event_versions takes %s: a rejected append may change writer state" % vb.local_ty(1), vb)

    # R16.3
    R = WTP + "bucket_id_to_thread_id"
    users = {(b.root or b.path) for b, bi in callers.get(R, [])}
    need = {WTP + "WriterThreadPool::append_events", WTP + "Worker::new"}
    if need <= users:
        chk.ok("R16.3", "routing and worker ownership both use bucket_id_to_thread_id", "")
    else:
        chk.fail("R16.3", sorted(need - users)[0], "second-routing", "%s no longer derives the owning thread from bucket_id_to_thread_id: requests for one bucket can reach two workers" % sorted(need - users), None)
    # senders[target_thread]: the index used by append_events flows from that call
    ab = prog.body(WTP + "WriterThreadPool::append_events::{closure#0}")
    aev = Ev(prog, ab)
    gets = [(bi, t) for bi, t in ab.calls() if (ab.callee_decl(t) or "").endswith("::get") and "slice" in (ab.callee_decl(t) or "")]
    okr = any(any(isinstance(x, tuple) and x and x[0] == "call" and x[1] == R for x in walk(aev.operand(t["args"][1], (bi, "T")))) for bi, t in gets)
    if okr:
        chk.ok("R16.3", "the sender is selected by bucket_id_to_thread_id's result", ab.where())
    else:
        chk.fail("R16.3", WTP + "WriterThreadPool::append_events", "sender-index", "the worker channel is not selected by bucket_id_to_thread_id's result", ab)

    # R16.4
    check_sequence_cache(chk, prog, "R16.4")
    # R16.5
    from . import c02
    hw = prog.body(WS + "handle_write")
    c02.late_bookkeeping(chk, prog, hw, Ev(prog, hw), sites_via_helpers(prog, hw, BSW + "append_event"), sites_via_helpers(prog, hw, BSW + "append_commit"), "R16.5")
    return {}
