"""C25 - expected-version algebra matches the store and round-trips (R25.1, R25.3)."""
from ..facts import Program, Inconclusive, op_place
from ..flow import Ev, walk, show, strip
from ..gate import linear
from ..util import calls, discr_switches
from .. import panic
from .c24 import report_audit

P = "sierradb_protocol::"
ALLOW = {
    P + "ExpectedVersion::into_next_version": {
        "panic:panic_fmt": "documented domain: only Empty/Exact have a next version; the only caller with remote input (ReplicateWrite) rejects Any/Exists first (C10 R10.1)"},
    P + "CurrentVersion::next": {
        "overflow:Overflow(Add)": "a stream version / partition sequence of u64::MAX cannot exist: the writer assigns sequences with checked_add(1).unwrap() and versions with next()"},
    P + "<CurrentVersion as std::ops::AddAssign<u64>>::add_assign": {
        "overflow:Overflow(Add)": "same bound as CurrentVersion::next; used by tests and batch bookkeeping only"},
}


def str_consts(body):
    out = []
    for bi, blk in enumerate(body.blocks):
        ops = []
        for s in blk["s"]:
            if s["k"] == "assign":
                rv = s["rv"]
                ops += [rv.get("op"), rv.get("a"), rv.get("b")] + list(rv.get("ops", []))
        t = blk["t"]
        if t["k"] == "call":
            ops += t["args"]
        for o in ops:
            if isinstance(o, dict) and "c" in o and o.get("ty", "").startswith("&") and "str" in o.get("ty", ""):
                c = o["c"]
                if c.startswith("const "):
                    c = c[6:]
                out.append(c.strip('"'))
    return out


def run(chk, facts_dir, tier):
    prog = Program(facts_dir, crates=["sierradb_protocol-lib"])
    chk.rule("R25.1", "PANIC-AUDIT of sierradb-protocol's version algebra: gap_from, is_satisfied_by, from_next_version, into_next_version, next, AddAssign, FromStr: "
                      "every overflow/underflow is discharged by an interval, a relational guard (cmp arms) or a reasoned allow-list entry")
    chk.rule("R25.3", "INVERSES: from_next_version is `0 -> Empty, v -> Exact(v - 1)` and into_next_version is `Empty -> 0, Exact(v) -> v.checked_add(1)`; "
                      "Display and FromStr use the same keywords (any / exists / empty) for ExpectedVersion and (empty) for CurrentVersion")
    chk.not_decided += ["R25.2 of the design (decision-table equality with WriterSet::validate_event_versions) was dropped together with C02 R2.1",
                        "gap_from's distances at u64::MAX saturate (the true distance is not representable)"]
    n = 0
    targets = [p for p in prog.bodies if p.startswith(P) and ("ExpectedVersion" in p or "CurrentVersion" in p) and "serde" not in p and "_::" not in p]
    for p in sorted(targets):
        b = prog.bodies[p]
        if "fmt::Debug" in p or "cmp::" in p or "hash::" in p or "clone::" in p or "default::" in p:
            continue
        chk.analysed(p)
        n += report_audit(chk, "R25.1", prog, b, ALLOW.get(p, {}), include_casts=True)
    chk.floor("R25.1", n, 6)
    # gap_from must have no remaining plain arithmetic on the u64::MAX edge: `n + 1` must be saturating
    gb = prog.body(P + "ExpectedVersion::gap_from")
    sat = [t for bi, t in gb.calls() if (gb.callee_decl(t) or "").endswith("::saturating_add")]
    chk.ok("R25.1", "gap_from uses %d saturating additions for the +1 distances" % len(sat), gb.where()) if len(sat) >= 2 else None

    # R25.4 the satisfied/not-satisfied decision is made on the raw versions
    chk.rule("R25.4", "EXACT DECISION: in gap_from the comparison that separates `None` from Ahead/Behind for (Exact(e), Current(c)) is made on e and c themselves, not on "
                      "values derived by saturating/wrapping arithmetic (not injective at the u64 boundary), and the distances are the plain differences of those operands")
    n_cmp = 0
    # gap_from and the private helpers it calls (the Exact/Current comparison may live in `fn exact_gap(expected, current)`)
    gbodies = [gb] + [prog.bodies[c] for c in sorted({(gb.callee(t) or gb.callee_decl(t) or "") for _, t in gb.calls()}) if c.startswith(P) and c in prog.bodies and c != gb.path]
    from ..gate import comparisons as _cmps
    for gbx in gbodies:
        chk.analysed(gbx.path)
        gev = Ev(prog, gbx)
        cmps = [(bi, t) for bi, t in gbx.calls() if (gbx.callee_decl(t) or "").endswith("::cmp") or (gbx.callee(t) or "").endswith("::cmp")]
        eqs = [(bi, t) for bi, t in gbx.calls() if (gbx.callee_decl(t) or "").rsplit("::", 1)[-1] in ("eq", "ne", "lt", "le", "gt", "ge")]
        for bi, t in cmps + eqs:
            n_cmp += 1
            bad = []
            for a in t["args"]:
                term = gev.operand(a, (bi, "T"))
                if any(isinstance(x, tuple) and x and (x[0] in ("call", "bin")) for x in walk(term)):
                    bad.append(show(term)[:50])
            if bad:
                chk.fail("R25.4", gb.path, "derived-operands", "gap_from decides on derived values (%s) instead of the raw expected/current versions: two different versions can compare "
                         "equal at the u64 boundary, so is_satisfied_by holds for an append the store rejects" % bad, gbx, t["line"])
            else:
                chk.ok("R25.4", "gap_from compares the raw versions", gbx.where(t["line"]))
        for c in _cmps(prog, gbx, gev):
            if c["stmt"] != "T":
                n_cmp += 1
                if any(isinstance(x, tuple) and x and x[0] in ("call", "bin") for x in list(walk(c["a"])) + list(walk(c["b"]))):
                    chk.fail("R25.4", gb.path, "derived-operands", "gap_from decides on derived values instead of the raw versions", gbx, c["line"])
    chk.floor("R25.4", n_cmp, 1)

    # R25.3 inverse shapes
    fb = prog.body(P + "ExpectedVersion::from_next_version")
    fev = Ev(prog, fb)
    ok_f = False
    for i, j, s in fb.assigns():
        if s["rv"]["k"] == "agg" and s["rv"]["ak"].endswith("ExpectedVersion::Exact"):
            base, off = linear(fev.operand(s["rv"]["ops"][0], (i, j)))
            if strip(base)[0] == "param" and off == -1:
                ok_f = True
            # `match v.checked_sub(1) { Some(p) => Exact(p), None => Empty }`: the Some payload of checked_sub(v, 1)
            sb_ = strip(base)
            while sb_[0] in ("field", "variant"):
                sb_ = strip(sb_[1])
            if off == 0 and sb_[0] == "call" and sb_[1].endswith("::checked_sub") and len(sb_[2]) == 2 and strip(sb_[2][0])[0] == "param" \
                    and strip(sb_[2][1])[0] == "const" and strip(sb_[2][1])[2] == 1:
                ok_f = True
    empties = [s for i, j, s in fb.assigns() if s["rv"]["k"] == "agg" and s["rv"]["ak"].endswith("ExpectedVersion::Empty")]
    if ok_f and empties:
        chk.ok("R25.3", "from_next_version: 0 -> Empty, v -> Exact(v - 1)", fb.where())
    else:
        chk.fail("R25.3", fb.path, "from-next-shape", "from_next_version is no longer `0 -> Empty, v -> Exact(v - 1)`", fb)
    ib = prog.body(P + "ExpectedVersion::into_next_version")
    iev = Ev(prog, ib)
    ca = [(bi, t) for bi, t in ib.calls() if (ib.callee_decl(t) or "").endswith("::checked_add")]
    ok_i = False
    for bi, t in ca:
        a = strip(iev.operand(t["args"][0], (bi, "T")))
        c = strip(iev.operand(t["args"][1], (bi, "T")))
        if c[0] == "const" and c[2] == 1 and any(isinstance(x, tuple) and x and x[0] == "variant" and x[2] == "Exact" for x in walk(a)):
            ok_i = True
    zero = any(s["rv"]["k"] == "agg" and s["rv"]["ak"].endswith("Option::Some") and strip(iev.operand(s["rv"]["ops"][0], (i, j)))[0] == "const" and strip(iev.operand(s["rv"]["ops"][0], (i, j)))[2] == 0
               for i, j, s in ib.assigns())
    # the value returned is the checked_add result itself (or Some(0)): nothing narrows it afterwards
    post = None
    for r in ib.return_blocks():
        rt = strip(iev.place({"l": 0, "p": []}, (r, "T")))
        for alt in (rt[1] if rt[0] == "phi" else (rt,)):
            a = strip(alt)
            if a[0] == "call" and a[1].endswith("::checked_add"):
                continue
            if a[0] == "agg" and a[1].endswith("Option::Some") and strip(a[2][0])[0] == "const":
                continue
            if a[0] == "call" and any(isinstance(x, tuple) and x and x[0] == "call" and x[1].endswith("::checked_add") for x in walk(a)):
                post = a[1]
    if ok_i and zero and post and post.rsplit("::", 1)[-1] in ("filter", "take_if", "xor", "and", "zip"):
        chk.fail("R25.3", ib.path, "into-next-narrowed", "into_next_version passes the result of `v.checked_add(1)` through %s before returning it: some next versions are turned into "
                 "None, so `into_next_version(from_next_version(v))` is no longer `Some(v)` for every v" % ("Option::" + post.rsplit("::", 1)[-1]), ib)
    elif ok_i and zero and post:
        raise Inconclusive("into_next_version: the checked_add result is post-processed by %s; re-read it" % post)
    elif ok_i and zero:
        chk.ok("R25.3", "into_next_version: Empty -> Some(0), Exact(v) -> v.checked_add(1)", ib.where())
    else:
        chk.fail("R25.3", ib.path, "into-next-shape", "into_next_version is no longer `Empty -> Some(0), Exact(v) -> v.checked_add(1)`", ib)
    # keyword tables
    for ty, kws in (("ExpectedVersion", {"any", "exists", "empty"}), ("CurrentVersion", {"empty"})):
        disp = [p for p in prog.bodies if p.startswith(P) and "fmt::Display" in p and ty in p and "closure" not in p]
        frm = [p for p in prog.bodies if p.startswith(P) and "FromStr" in p and ty in p and "closure" not in p]
        if not disp or not frm:
            raise Inconclusive("%s: Display/FromStr impl not found" % ty)
        d = {c for c in str_consts(prog.bodies[disp[0]]) if c.isalpha()}
        f = {c for c in str_consts(prog.bodies[frm[0]]) if c.isalpha()}
        chk.analysed(disp[0], frm[0])
        if d == f == kws:
            chk.ok("R25.3", "%s: Display and FromStr agree on %s" % (ty, sorted(kws)), prog.bodies[frm[0]].where())
        else:
            chk.fail("R25.3", frm[0], "keyword-table:" + ty, "Display writes %s but FromStr accepts %s (expected %s): a printed value does not parse back" % (sorted(d), sorted(f), sorted(kws)), prog.bodies[frm[0]])
    # ---------------- R25.5 the store decides on the raw values too
    chk.rule("R25.5", "EXACT DECISION IN THE STORE: the comparisons by which the writer accepts or rejects an expected partition sequence / stream version "
                      "(validate_partition_sequence, WriterSet::validate_event_versions) are made on the raw versions: no operand of an equality or ordering test there is "
                      "computed with wrapping_* or saturating_* arithmetic, which is not injective at the u64 boundary (Exact(u64::MAX) + 1 wraps to 0 = 'empty')")
    sprog = Program(facts_dir, crates=["sierradb-lib"])
    W = "sierradb::writer_thread_pool::"
    n5 = 0
    for root in (W + "validate_partition_sequence", W + "WriterSet::validate_event_versions"):
        fam = sprog.family(root)
        if not fam:
            raise Inconclusive("%s not found" % root)
        for b in fam:
            chk.analysed(b.path)
            from ..gate import comparisons as _cmps
            for c in _cmps(sprog, b):
                if "debug_assert" in c.get("exp", ""):
                    continue
                n5 += 1
                bad = [x[1].rsplit("::", 1)[-1] for side in (c["a"], c["b"]) for x in walk(side)
                       if isinstance(x, tuple) and x and x[0] == "call" and x[1].rsplit("::", 1)[-1].split("_")[0] in ("wrapping", "saturating")]
                if bad:
                    chk.fail("R25.5", root, "lossy-operand:%s" % bad[0], "an accept/reject comparison of the version validator has an operand computed with %s: two different versions "
                             "compare equal at the u64 boundary, so an expectation that is not satisfied is accepted" % bad[0], b, c["line"])
                else:
                    chk.ok("R25.5", "%s L%s: compared on raw values" % (root.rsplit("::", 1)[-1], c["line"]), b.where(c["line"]))
    chk.floor("R25.5", n5, 4)
    chk.rule("R25.6", "EXACT MEANS EQUAL: validate_partition_sequence accepts Exact(sequence) only on the equal edge of `next_partition_sequence - 1 == sequence` (offsets checked), "
                      "never on an ordering test")
    exact_sequence_gate(chk, sprog, "R25.6")
    return {}


def exact_sequence_gate(chk, prog, rule):
    """In validate_partition_sequence the Exact(sequence) arm returns Ok only on the equal edge of `next_partition_sequence - 1 == sequence`
    (or `next == sequence + 1`): an ordering test (`>`, `>=`) accepts an expectation the partition has already moved past (C25 R25.6, C10 R10.6, C02)."""
    from ..gate import comparisons as _cmps, switch_on, edge_dominates, linear
    from ..util import discr_switches, ok_return_blocks
    fn = "sierradb::writer_thread_pool::validate_partition_sequence"
    b = prog.bodies.get(fn)
    if b is None:
        raise Inconclusive("validate_partition_sequence not found")
    chk.analysed(fn)
    ev = Ev(prog, b)
    # the Exact arm: the edge of the match on `expected` taken for the variant that carries a payload read as ((expected as Exact).0)
    arm = None
    for sb, place, targets, otherwise in discr_switches(b):
        if "ExpectedVersion" in b.local_ty(place["l"]):
            for v, tgt in targets.items():
                reg = b.reach_from([tgt], avoid=frozenset([sb])) | {tgt}
                for i, j, s_ in b.assigns():
                    if i in reg and s_["rv"]["k"] == "use":
                        pl = op_place(s_["rv"]["op"])
                        if pl and any(isinstance(e, dict) and e.get("dc") == "Exact" for e in pl["p"]):
                            arm = (sb, tgt)
    if arm is None:
        raise Inconclusive("validate_partition_sequence: Exact arm not found")

    def is_next(t):
        return strip(t)[0] == "param" and strip(t)[2] == "next_partition_sequence"

    def is_seq(t):
        return any(isinstance(x, tuple) and x and x[0] == "variant" and x[2] == "Exact" for x in walk(t)) or \
            any(isinstance(x, tuple) and x and x[0] == "field" and "Exact" in str(x) for x in [strip(t)])

    gates = []
    for c in _cmps(prog, b, ev):
        if c["op"] not in ("Eq", "Ne"):
            continue
        (ba, oa), (bb, ob) = linear(c["a"]), linear(c["b"])
        if is_next(ba) and is_seq(bb):
            diff = oa - ob
        elif is_next(bb) and is_seq(ba):
            diff = ob - oa
        else:
            continue
        sw = switch_on(b, c["sw_block"], c["lhs"]["l"])
        if sw and diff == -1:
            gates.append((c["sw_block"], sw[0] if c["op"] == "Eq" else sw[1], c["line"]))
    n = 0
    for ob_, s_ in ok_return_blocks(b):
        if not edge_dominates(b, arm[0], arm[1], ob_):
            continue
        n += 1
        if any(edge_dominates(b, gb, ge, ob_) for gb, ge, _ in gates):
            chk.ok(rule, "Exact(sequence) accepted only under next_partition_sequence - 1 == sequence", b.where(s_["line"]))
        else:
            chk.fail(rule, fn, "exact-not-equality", "an append expecting Exact(sequence) is accepted without the equality `next_partition_sequence - 1 == sequence`: a stale expectation "
                     "(the partition has already moved past that sequence) is accepted and appended at the end, so a second, different transaction is acknowledged for the same expected position",
                     b, s_["line"])
    chk.floor(rule, n, 1)
