"""C22 - the RESP API of a single node: requests cannot kill the connection task (R22.1-R22.2)."""
import re
from ..facts import Program, Inconclusive, op_place
from ..flow import Ev, walk, show, strip
from ..util import calls, ok_return_blocks
from .. import panic

S = "sierradb_server::"
SCOPE = re.compile(r"request::.*handle_request|request::.*::from$|request::encode_event|request::Command::|server::Conn::")
NP = "num_partitions >= 1: Server::new receives partition.count, which configuration validation requires to be >= node count >= 1"
ALLOW = {
    ("<request::eappend::EAppend as request::HandleRequest>::handle_request", "divzero:RemainderByZero#1"): NP,
    ("<request::emappend::EMAppend as request::HandleRequest>::handle_request", "divzero:RemainderByZero#1"): NP,
    ("<request::escan::EScan as request::HandleRequest>::handle_request", "divzero:RemainderByZero#1"): NP,
    ("<request::esver::ESVer as request::HandleRequest>::handle_request", "divzero:RemainderByZero#1"): NP,
    ("<request::eget::EGet as request::HandleRequest>::handle_request", "divzero:RemainderByZero#1"): NP,
    ("<request::eappend::EAppend as request::HandleRequest>::handle_request", "unwrap:Option::unwrap#1"):
        "AppendResult.stream_versions has one entry per distinct stream of the transaction; EAPPEND appends exactly one event",
    ("<request::emappend::EMAppend as request::HandleRequest>::handle_request", "unwrap:Option::unwrap#1"):
        "AppendResult.stream_versions has an entry for every stream id of the transaction that was just appended",
    ("<request::epsub::EPSub as request::HandleRequest>::handle_request", "panic:panic_fmt#1"): "unreachable!(\"infallible error\") inside map_err on a SendError whose handler error type is Infallible",
    ("<request::esub::ESub as request::HandleRequest>::handle_request", "panic:panic_fmt#1"): "unreachable!(\"infallible error\") inside map_err on a SendError whose handler error type is Infallible",
    ("<request::epsub::EPSub as request::HandleRequest>::handle_request_failable", "panic:panic_fmt#1"): "unreachable!(\"always returns some\"): EPSub::handle_request has no Ok(None) return (checked below)",
    ("<request::esub::ESub as request::HandleRequest>::handle_request_failable", "panic:panic_fmt#1"): "unreachable!(\"always returns some\"): ESub::handle_request has no Ok(None) return (checked below)",
    ("<request::hello::Hello as request::HandleRequest>::handle_request", "unwrap:Option::unwrap#1"): "the local cluster actor's id always carries a peer id (it is a RemoteActorRef registered on this swarm)",
    ("<request::info::Info as request::HandleRequest>::handle_request", "overflow:Overflow(Add)#1"): "process-lifetime cache hit/miss counters: 2^64 lookups are out of reach",
    ("<request::info::Info as request::HandleRequest>::handle_request", "overflow:Overflow(Add)#2"): "process-lifetime cache hit/miss counters: 2^64 lookups are out of reach",
    ("server::Conn::handle_request", "op:Index<I>>::index#1"): "data[0] after the `data.is_empty()` early return",
    ("server::Conn::handle_request", "op:Index<I>>::index#2"): "data[1..] after the `data.is_empty()` early return",
}
DEBUG_ONLY = ("assert_failed",)


def run(chk, facts_dir, tier):
    prog = Program(facts_dir, crates=["sierradb_server-lib"])
    chk.rule("R22.1", "PANIC-AUDIT of every request handler (handle_request / handle_request_failable), the response encoders (From<..> for BytesFrame, encode_event), "
                      "Command::{try_from, handle} and Conn::{run, handle_request}: every overflow, division, unwrap, index and explicit panic is discharged by an interval, "
                      "a guard, or a frozen allow-list entry with a reason; debug_assert! and tokio::select! internals are excluded")
    chk.rule("R22.2", "ERROR MAPPING: in all three handle_request_failable implementations a handler Err becomes Ok(Some(SimpleError)); Command::handle turns a parse error into "
                      "SimpleError; io::Error values returned from the connection task originate from socket calls only")
    chk.rule("R22.3", "NO SILENT WRAP OF REQUEST VALUES: a narrowing integer cast in a request handler whose operand is computed from the request's own fields (a timestamp, a count, a "
                      "version sent by the client) is proven lossless by the interval analysis or replaced by a checked conversion; otherwise an out-of-range argument is accepted and "
                      "stored as a different value instead of being rejected with an error")
    chk.not_decided += ["that replies equal the reference event-store model (values)", "has_more flags and version numbers in replies (e.g. seeded/C22: EMAPPEND reports a version that is "
                        "too low for a multi-stream transaction) - arithmetic on runtime values, not decided"]
    n = 0
    used_allow = set()
    for p in sorted(prog.bodies):
        if not SCOPE.search(p):
            continue
        b = prog.bodies[p]
        root = (b.root or b.path).replace(S, "")
        chk.analysed(p)
        done, opn = panic.audit(prog, b, include_casts=False)
        for s, r in done:
            n += 1
            chk.ok("R22.1", "%s L%d %s: %s" % (root[-60:], s.line, s.key, r), b.where(s.line))
        occ = {}
        for s in opn:
            if "select" in s.exp or _line_has(b, s.line, "select!"):
                continue  # tokio::select! internals (branch bookkeeping, "all branches disabled" panic with an else-less select over always-enabled branches)
            if s.kind == "panic" and s.what in DEBUG_ONLY and "assert" in s.exp and "debug" not in s.exp:
                pass
            key = "%s#%d" % (s.key, s.occurrence)
            n += 1
            reason = ALLOW.get((root, key))
            if reason is None and s.kind == "panic" and s.what == "assert_failed" and _is_debug_assert(b, s):
                reason = "debug_assert!: compiled out of release builds"
            if reason:
                used_allow.add((root, key))
                chk.ok("R22.1", "%s L%d %s: allow-listed (%s)" % (root[-60:], s.line, key, reason), b.where(s.line))
            else:
                chk.fail("R22.1", S + root, key, "a request can panic the connection task here (%s %s): the client gets a closed connection instead of an error reply" % (s.key, getattr(s, "detail", "")), b, s.line)
    chk.floor("R22.1", n, 15)
    stale = set(ALLOW) - used_allow
    for (root, key) in sorted(stale):
        # an allow-list entry that no longer matches anything is reported as a note, not a violation
        chk.notes.append("allow-list entry no longer matched: %s %s" % (root, key))
    # ---------------- R22.3
    n_cast = 0
    for p in sorted(prog.bodies):
        if "HandleRequest>::handle_request" not in p:
            continue
        b = prog.bodies[p]
        done, opn = panic.audit(prog, b, include_casts=True)
        ev = None
        donesites = [d[0] for d in done]
        for s_ in donesites + list(opn):
            if s_.kind != "cast":
                continue
            n_cast += 1
            ev = ev or Ev(prog, b)
            from ..flow import resolve_upvars
            term = resolve_upvars(prog, ev.operand(s_.ops[0], (s_.block, "T")), b)
            from_request = any(isinstance(x, tuple) and x and x[0] == "field" and strip(x[1])[0] == "param" and strip(x[1])[1] == 1 for x in walk(term))
            root = (b.root or b.path).replace(S, "")
            if s_ in donesites:
                chk.ok("R22.3", "%s L%d %s: lossless by interval" % (root[-50:], s_.line, s_.what), b.where(s_.line))
            elif not from_request:
                chk.ok("R22.3", "%s L%d %s: operand is not computed from the request (%s)" % (root[-50:], s_.line, s_.what, show(term)[:50]), b.where(s_.line))
            else:
                chk.fail("R22.3", S + root, "lossy-cast:%s" % s_.what, "a value computed from the request (%s) is narrowed with `as` and can wrap: the request is accepted with a different "
                         "value instead of being rejected" % show(term)[:90], b, s_.line)
    chk.floor("R22.3", n_cast, 2)

    # ---------------- R22.4 every buffered request is decoded and answered
    chk.rule("R22.4", "THE READ BUFFER IS DRAINED: in Conn::run every call to decode_bytes_mut sits in a loop that comes back to it after a request was handled (both select! arms, "
                      "with and without subscriptions); a single decode per socket read leaves a pipelined request unanswered until the client sends something else")
    rb_ = prog.bodies.get(S + "server::Conn::run::{closure#0}")
    if rb_ is None:
        raise Inconclusive("Conn::run coroutine not found")
    decs = [(bi, t) for bi, t in rb_.calls() if (rb_.callee_decl(t) or "").endswith("decode_bytes_mut")]
    for bi, t in decs:
        succ = [t["target"]] if t.get("target") is not None else []
        if succ and bi in rb_.reach_from(succ, avoid=frozenset(_select_heads(rb_))):
            chk.ok("R22.4", "decode_bytes_mut at L%s is re-entered after each handled request" % t.get("line"), rb_.where(t["line"]))
        else:
            chk.fail("R22.4", S + "server::Conn::run", "single-decode", "only one request is decoded per socket read here: a second request that arrived in the same read stays in the "
                     "buffer and is neither executed nor answered until more bytes arrive", rb_, t["line"])
    chk.floor("R22.4", len(decs), 2)

    # ESub / EPSub handle_request never return Ok(None)
    for nm in ("esub::ESub", "epsub::EPSub"):
        hb = prog.bodies.get(S + "<request::%s as request::HandleRequest>::handle_request::{closure#0}" % nm)
        if hb is None:
            raise Inconclusive("%s::handle_request coroutine not found" % nm)
        ev = Ev(prog, hb)
        bad = False
        for ob, s in ok_return_blocks(hb):
            term = strip(ev.operand(s["rv"]["ops"][0], (ob, "T")))
            if term[0] == "agg" and term[1].endswith("Option::None"):
                bad = True
        if bad:
            chk.fail("R22.1", S + "<request::%s as request::HandleRequest>::handle_request" % nm, "returns-none", "handle_request can return Ok(None), which its handle_request_failable treats as unreachable!", hb)
        else:
            chk.ok("R22.1", "%s::handle_request has no Ok(None) return" % nm, hb.where())

    # ---------------- R22.2
    impls = [p for p in prog.bodies if "handle_request_failable" in p and "closure" in p and p.count("{closure") == 1]
    n_map = 0
    for p in sorted(impls):
        b = prog.bodies[p]
        chk.analysed(p)
        ev = Ev(prog, b)
        se = [s for i, j, s in b.assigns() if s["rv"]["k"] == "agg" and s["rv"]["ak"].endswith("BytesFrame::SimpleError")]
        errs = [s for i, j, s in b.assigns() if s["lhs"]["l"] == 0 and not s["lhs"]["p"] and s["rv"]["k"] == "agg" and s["rv"]["ak"].endswith("Result::Err")]
        n_map += 1
        if se and not errs:
            chk.ok("R22.2", "%s: handler errors become SimpleError replies; no Err(io::Error) is constructed" % p.replace(S, "")[:70], b.where())
        else:
            chk.fail("R22.2", p.rsplit("::{closure", 1)[0], "handler-error-kills-connection", "a handler error is returned as Err(io::Error) (or not mapped to SimpleError): the connection task ends instead of replying", b)
    chk.floor("R22.2", n_map, 3)
    cb = prog.bodies.get(S + "request::Command::handle::{closure#0}")
    if cb is None:
        raise Inconclusive("Command::handle coroutine not found")
    chk.analysed(cb.path)
    se = [s for i, j, s in cb.assigns() if s["rv"]["k"] == "agg" and s["rv"]["ak"].endswith("BytesFrame::SimpleError")]
    errs = [s for i, j, s in cb.assigns() if s["lhs"]["l"] == 0 and not s["lhs"]["p"] and s["rv"]["k"] == "agg" and s["rv"]["ak"].endswith("Result::Err")]
    parsers = [t for bi, t in cb.calls() if (cb.callee_decl(t) or "").endswith("::parse")]
    if len(se) >= 13 and not errs and len(parsers) >= 13:
        chk.ok("R22.2", "Command::handle: %d commands, each parse error becomes a SimpleError" % len(parsers), cb.where())
    else:
        chk.fail("R22.2", S + "request::Command::handle", "parse-error-mapping", "a parse error is not turned into a SimpleError reply for every command (parsers=%d, SimpleError sites=%d, Err returns=%d)" % (len(parsers), len(se), len(errs)), cb)
    # io::Error constructions in the connection code
    n_io = 0
    for p, b in prog.bodies.items():
        if not (p.startswith(S + "server::Conn::") or "handle_request" in p):
            continue
        for bi, t in b.calls():
            c = b.callee_decl(t) or ""
            if c.startswith("std::io::Error::new") or c.startswith("std::io::Error::other"):
                n_io += 1
                chk.fail("R22.2", b.root or b.path, "io-error-constructed", "an io::Error is constructed in the request path: it will end the connection task", b, t["line"])
    if n_io == 0:
        chk.ok("R22.2", "no io::Error is constructed in Conn::* or the handlers (they only propagate socket errors)", "")
    return {}


def _is_debug_assert(body, s):
    # debug_assert! expands to `if cfg!(debug_assertions) { assert!(..) }`; the driver keeps the outermost macro name only when it is debug_assert
    return "debug_assert" in s.exp or _line_has(body, s.line, "debug_assert")


_SRC = {}


def _line_has(body, line, needle):
    import os
    path = os.path.join(os.environ.get("SV_REPO", "/repo"), body.file)
    if path not in _SRC:
        try:
            _SRC[path] = open(path).read().splitlines()
        except OSError:
            _SRC[path] = []
    src = _SRC[path]
    return 0 < line <= len(src) and needle in src[line - 1]


def _select_heads(body):
    """blocks that start a new turn of the connection loop: the socket reads (read_buf / read) - a path back to decode through them is a new turn, not the drain loop"""
    return [bi for bi, t in body.calls() if any(x in (body.callee_decl(t) or "") for x in ("AsyncReadExt::read_buf", "AsyncReadExt::read", "Receiver::<T>::recv", "UnboundedReceiver::<T>::recv"))]
