"""C24 - distribute_partition returns min(rf, n, 12) distinct valid partitions (R24.1-R24.2)."""
from ..facts import Program, Inconclusive, op_place
from ..flow import Ev, walk, show, strip
from ..gate import switch_on, edge_dominates
from ..util import calls
from .. import panic

FN = "sierradb_topology::distribute_partition"
IMPURE = ("SystemTime", "Instant::now", "rand::", "RandomState", "HashMap", "HashSet", "thread_rng", "getrandom", "std::env")


def report_audit(chk, rule, prog, body, allow, extra_discharge=None, include_casts=True, kinds=None):
    done, opn = panic.audit(prog, body, allow, include_casts=include_casts)
    if kinds is not None:
        done = [(s, r) for s, r in done if s.kind in kinds]
        opn = [s for s in opn if s.kind in kinds]
    for s, r in done:
        chk.ok(rule, "%s L%d %s: %s" % (body.path.split("::")[-1], s.line, s.key, r), body.where(s.line))
    still = []
    for s in opn:
        r = extra_discharge(s) if extra_discharge else None
        if r:
            chk.ok(rule, "%s L%d %s: %s" % (body.path.split("::")[-1], s.line, s.key, r), body.where(s.line))
        else:
            still.append(s)
    for s in still:
        chk.fail(rule, body.root or body.path, "%s#%d" % (s.key, s.occurrence), "possible panic: %s %s is not discharged by an interval, a dominating guard or the allow-list"
                 % (s.key, getattr(s, "detail", "")), body, s.line)
    return len(done) + len(opn)


def run(chk, facts_dir, tier):
    prog = Program(facts_dir, crates=["sierradb_topology-lib"])
    chk.rule("R24.1", "PANIC-AUDIT of distribute_partition with intervals: no overflow, no division by zero, no out-of-capacity push; every pushed element is "
                      "`x % num_partitions`; the loop runs at most actual_replication - 1 <= 11 times")
    chk.rule("R24.2", "PURITY: distribute_partition calls no clock, RNG or hash-ordered container")
    chk.not_decided += ["pairwise distinctness for all n (number theory: gcd(jump, n) = 1 in all three branches, argued by hand in DESIGN.md)",
                        "the prefix property for smaller rf (follows from the loop structure: the walk does not depend on rf)"]
    b = prog.body(FN)
    chk.analysed(b.path)
    ev = Ev(prog, b)
    pushes = calls(b, "ArrayVec::<T, CAP>::push", suffix=True)

    def extra(s):
        if s.kind == "op" and s.what.endswith("::push"):
            # dominated by the false edge of `result.is_full()` (or it is the first push into the empty vector)
            for bi, t in calls(b, "ArrayVec::<T, CAP>::is_full", suffix=True):
                # `contains(..) || is_full()` : is_full's false edge leads to the push
                sw = switch_on(b, t["target"], t["dest"]["l"])
                if sw and edge_dominates(b, t["target"], sw[1], s.block):
                    return "dominated by !result.is_full()"
            if s.block == pushes[0][0] and not any(p[0] in b.reach_from([0], avoid=frozenset([s.block])) and b.dominates(p[0], s.block) for p in pushes[1:]):
                first = all(not (b.dominates(p[0], s.block)) for p in pushes if p[0] != s.block)
                if first:
                    return "first push into a fresh ArrayVec of capacity MAX_REPLICATION_FACTOR (12)"
        return None

    n = report_audit(chk, "R24.1", prog, b, {}, extra)
    # private helpers of distribute_partition in the same crate are part of the audited function
    for bi, t in b.calls():
        hp = b.callee(t) or b.callee_decl(t) or ""
        hb = prog.bodies.get(hp)
        if hb is not None and hp.startswith("sierradb_topology::") and hp != FN and "manager" not in hp:
            chk.analysed(hp)
            n += report_audit(chk, "R24.1", prog, hb, {})
    chk.floor("R24.1", n, 8)
    # every pushed element is a remainder by num_partitions
    for bi, t in pushes:
        v = strip(ev.operand(t["args"][1], (bi, "T")))
        ok = False
        for x in walk(v):
            if isinstance(x, tuple) and x and x[0] == "bin" and x[1] == "Rem":
                d = strip(x[3])
                if any(isinstance(y, tuple) and y and y[0] == "param" and y[2] == "num_partitions" for y in walk(d)):
                    ok = True
        top = v
        while top[0] in ("cast",):
            top = top[1]
        is_rem = top[0] == "bin" and top[1] == "Rem" or (top[0] == "phi" and all(strip(a)[0] in ("bin", "cycle") for a in top[1]))
        if ok and (is_rem or top[0] == "phi"):
            chk.ok("R24.1", "pushed value is `.. % num_partitions`", b.where(t["line"]))
        else:
            chk.fail("R24.1", FN, "push-not-modulo", "a partition id is pushed that is not reduced modulo num_partitions: %s" % show(v)[:80], b, t["line"])
    chk.floor("R24.1-push", len(pushes), 2)
    # purity
    bad = [(b.callee(t) or "") for bi, t in b.calls() if any(i in (b.callee(t) or "") or i in (b.callee_decl(t) or "") for i in IMPURE)]
    if bad:
        chk.fail("R24.2", FN, "impure", "distribute_partition calls %s: the result is not a function of its arguments" % bad[0], b)
    else:
        chk.ok("R24.2", "no clock / RNG / hash-ordered container in distribute_partition (%d calls inspected)" % len(list(b.calls())), b.where())
    # first element is hash % n
    if pushes:
        v0 = strip(ev.operand(pushes[0][1]["args"][1], (pushes[0][0], "T")))
        if v0[0] == "bin" and v0[1] == "Rem" and strip(v0[2])[0] == "param" and strip(v0[2])[2] == "partition_hash":
            chk.ok("R24.1", "first replica is partition_hash % num_partitions", b.where(pushes[0][1]["line"]))
        else:
            chk.fail("R24.1", FN, "first-not-hash-mod-n", "the first replica is not partition_hash % num_partitions: %s" % show(v0)[:60], b, pushes[0][1]["line"])
    return {}
