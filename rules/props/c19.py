"""C19 - appends that fit an empty segment never fail for lack of space (R19.1-R19.2)."""
from ..facts import Program, Inconclusive, op_place
from ..flow import Ev, walk, resolve_upvars, show, strip
from ..gate import comparisons, switch_on, edge_dominates, linear, SWAP
from ..util import calls, ok_return_blocks, discr_switches

PREP = "seglog::write::Writer::<H>::prepare_data"
HAE = "sierradb::writer_thread_pool::Worker::handle_append_events"
WS = "sierradb::writer_thread_pool::WriterSet::"


def has_call(term, pred):
    return any(isinstance(x, tuple) and x and x[0] == "call" and pred(x[1]) for x in walk(term))


def local_roots(body, ev, term):
    """user variables (named locals) a term is built from, via Vec/Cow plumbing"""
    out = set()
    for x in walk(term):
        if isinstance(x, tuple) and x and x[0] == "call" and x[1].endswith("Vec::<T>::with_capacity"):
            out.add(("vec", x[3]))
        if isinstance(x, tuple) and x and x[0] == "call" and "zstd::bulk::compress" in x[1]:
            out.add(("compressed", x[3]))
    return out


def run(chk, facts_dir, tier):
    prog = Program(facts_dir, crates=["sierradb-lib", "seglog-lib"])
    chk.rule("R19.1", "STORED <= ESTIMATED: Writer::prepare_data returns the compressed form only on the edge of a comparison `stored.len() < data.len()` where `stored` is "
                      "the very buffer that is returned (size prefix included); accepted alternative: handle_append_events matches SegmentFull and retries after a rollover")
    chk.rule("R19.2", "ONE ESTIMATE: the rollover decision, the EventsExceedSegmentSize test and the space check see the same events_size, built from EVENT_HEADER_SIZE + the four "
                      "variable lengths per event + COMMIT_SIZE for unflagged transactions")
    chk.not_decided += ["the numeric equality of the estimate with the encoded size (bincode layout)", "zstd's output sizes"]

    pb = prog.body(PREP)
    chk.analysed(pb.path)
    ev = Ev(prog, pb)
    # Ok returns carrying Cow::Owned (the compressed form)
    n = 0
    retry = _retry_on_full(prog)
    for ob, s in ok_return_blocks(pb):
        term = ev.operand(s["rv"]["ops"][0], (ob, 0))
        owned = [x for x in walk(term) if isinstance(x, tuple) and x and x[0] == "agg" and x[1].endswith("Cow::Owned")]
        if not owned:
            continue
        n += 1
        stored = owned[0][2][0]
        stored_roots = local_roots(pb, ev, stored)
        good = False
        seen = []
        for c in comparisons(prog, pb, ev):
            a, b, op = c["a"], c["b"], c["op"]
            la = has_call(a, lambda n_: n_.endswith("::len"))
            lb = has_call(b, lambda n_: n_.endswith("::len"))
            if not (la and lb):
                continue
            pa = _is_data_len(a)
            pb_ = _is_data_len(b)
            if pa == pb_:
                continue
            other, op2 = (b, SWAP[op]) if pa else (a, op)
            # other.len() op2 data.len()
            sw = switch_on(pb, c["sw_block"], c["lhs"]["l"])
            if not sw:
                continue
            edge = (c["sw_block"], sw[0]) if op2 in ("Lt", "Le") else ((c["sw_block"], sw[1]) if op2 in ("Ge", "Gt") else None)
            if not edge:
                continue
            strict = op2 in ("Lt", "Ge") or True
            same = local_roots(pb, ev, other) == stored_roots and bool(stored_roots) and linear(strip(other))[1] == 0
            dom = edge_dominates(pb, edge[0], edge[1], ob)
            seen.append("%s %s data.len()%s%s" % (show(other)[:50], op2, " [dominates]" if dom else "", "" if same else " [not the returned buffer]"))
            if same and dom:
                good = True
        if good:
            chk.ok("R19.1", "compressed form returned only when the stored buffer is smaller than the input", pb.where(s["line"]))
        elif retry:
            chk.ok("R19.1", "compressed form may be larger, but handle_append_events retries after rollover on SegmentFull", pb.where(s["line"]))
        else:
            chk.fail("R19.1", PREP, "stored-larger-than-input", "the compressed form is returned without a dominating `stored.len() < data.len()` on the buffer that is actually stored "
                     "(comparisons seen: %s): a record can be stored larger than the size the database reserved for it and fail with SegmentFull on every retry" % seen, pb, s["line"])
    chk.floor("R19.1", n, 1)

    # ---------------- R19.2
    hb = prog.body(HAE)
    chk.analysed(hb.path)
    hev = Ev(prog, hb)
    es_terms = []
    for c in comparisons(prog, hb, hev):
        for side in (c["a"], c["b"]):
            if any(isinstance(x, tuple) and x and x[0] == "field" and x[2] == "segment_size" for x in walk(c["b"] if side is c["a"] else c["a"])):
                es_terms.append((side, c["line"]))
    # the estimate is whatever is compared with segment_size (up to constants): every such comparison must use one and the same value
    from .c13 import addsub_leaves

    def estimate_leaves(t):
        out = []
        for sg, lf in addsub_leaves(t):
            lf = strip(lf)
            if lf[0] == "const":
                continue
            if any(isinstance(x, tuple) and x and x[0] == "call" and x[1].endswith("::write_offset") for x in walk(lf)):
                continue          # the space already used in the live segment
            out.append(lf)
        return out

    bases = [" + ".join(sorted(show(x) for x in estimate_leaves(t))) for t, l in es_terms]
    est_bodies = list(prog.family(HAE))
    helper = None
    for t, l in es_terms:
        for lf in estimate_leaves(t):
            if lf[0] == "call" and lf[1] in prog.bodies:
                helper = lf[1]
    if helper:
        est_bodies += list(prog.family(helper))          # the computation was extracted into a private helper
    if len(es_terms) >= 2 and len(set(bases)) == 1:
        chk.ok("R19.2", "size test and rollover decision use the same events_size (%d comparisons against segment_size)" % len(es_terms), hb.where(es_terms[0][1]))
    else:
        chk.fail("R19.2", HAE, "estimate-split", "the EventsExceedSegmentSize test and the rollover decision do not use one and the same size estimate (%s)" % sorted(set(bases))[:3], hb)
    # summands
    if es_terms:
        named = set()
        len_fields = set()
        flag = False
        for b in est_bodies:
            for i, j, s in b.assigns():
                for o in (s["rv"].get("a"), s["rv"].get("b"), s["rv"].get("op")):
                    if isinstance(o, dict) and o.get("named"):
                        named.add(o["named"].split("::")[-1])
            bev_ = Ev(prog, b)
            for bi, t_ in b.calls():
                if (b.callee_decl(t_) or "").endswith("::len") and t_["args"]:
                    recv = bev_.operand(t_["args"][0], (bi, "T"))
                    for x in walk(recv):
                        if isinstance(x, tuple) and x and x[0] == "field" and x[2] in ("stream_id", "event_name", "metadata", "payload") and "NewEvent" in str(x[3]):
                            len_fields.add(x[2])
            if calls(b, "sierradb::id::get_uuid_flag"):
                flag = True
        need = {"EVENT_HEADER_SIZE", "COMMIT_SIZE", "SEGMENT_HEADER_SIZE"}
        lens = len(len_fields)
        if need <= named and lens >= 4 and flag:
            chk.ok("R19.2", "events_size = sum(EVENT_HEADER_SIZE + 4 lengths) + (COMMIT_SIZE unless flagged); checked against segment_size with SEGMENT_HEADER_SIZE", hb.where())
        else:
            chk.fail("R19.2", HAE, "estimate-summands", "the size estimate lost a summand (constants used: %s, variable lengths: %d, flag test: %s)" % (sorted(named & need), lens, flag), hb)
    _decision_boundary(chk, prog, hb, hev)
    _writer_space_check(chk, prog)
    return {}


def _writer_space_check(chk, prog):
    """R19.4"""
    from .c13 import addsub_leaves
    from ..util import field_stores
    APP = "seglog::write::Writer::<H>::append"
    chk.rule("R19.4", "WRITER'S SPACE CHECK IS EXACT: seglog's Writer::append refuses a record (SegmentFull) exactly when the write offset it would advance to exceeds the "
                      "segment size: the two sides of the comparison, minus `size`, are term for term the value stored to `write_offset` after the write. A stricter test "
                      "(`>=`, an extra constant) refuses records the database has reserved room for - on every retry, since the database does not roll over for them")
    ab = prog.body(APP)
    chk.analysed(ab.path)
    ev = Ev(prog, ab)

    def norm(t):
        t = strip(t)
        while t[0] == "cast":
            t = strip(t[1])
        return t

    from ..gate import Classifier
    cls = Classifier(prog, lambda t: False, lambda t: False)

    def subst(t, args):
        if not isinstance(t, tuple) or not t:
            return t
        if t[0] == "param" and isinstance(t[1], int) and 1 <= t[1] <= len(args):
            return args[t[1] - 1]
        return tuple(subst(x, args) if isinstance(x, tuple) else x for x in t)

    def leaves(term, sign0, acc, depth=0):
        for sg, lf in addsub_leaves(term):
            lf = norm(lf)
            # a small helper of the writer (`remaining_bytes()` = size - write_offset): read through its return value
            if lf[0] == "call" and lf[1] in prog.bodies and lf[1].startswith("seglog::") and depth < 3 and len(prog.bodies[lf[1]].blocks) <= 12:
                ret = cls.closure_return(lf[1])
                if ret and ret[0] != "unknown":
                    leaves(subst(ret, lf[2]), sign0 * sg, acc, depth + 1)
                    continue
            # a widening cast may sit between the sums: flatten through it
            if lf[0] == "bin" or (lf[0] == "field" and lf[2] == "0" and lf[1][0] == "bin"):
                leaves(lf, sign0 * sg, acc, depth)
                continue
            acc.append((sign0 * sg, lf))
        return acc
    adv = None
    for bi, si, st in field_stores(ab, "write_offset", "Writer"):
        val = ev._rvalue(st["rv"], (bi, si), 0) if st["rv"].get("k") != "call" else None
        if val is not None:
            adv = (leaves(val, 1, []), st["line"])
    if adv is None:
        raise Inconclusive("Writer::append: no store to write_offset")
    full = [(i, s_) for i, j, s_ in ab.assigns() if s_["rv"].get("k") == "agg" and str(s_["rv"].get("ak", "")).endswith("SegmentFull")]
    if not full:
        raise Inconclusive("Writer::append: WriteError::SegmentFull is not constructed")
    n = 0
    for c in comparisons(prog, ab, ev):
        def has_size(t):
            return any(lf[0] == "field" and lf[2] == "size" and "Writer" in str(lf[3]) for sg, lf in leaves(t, 1, []))
        sa, sb_ = has_size(c["a"]), has_size(c["b"])
        if sa == sb_:
            continue
        e, sz, op = (c["b"], c["a"], SWAP[c["op"]]) if sa else (c["a"], c["b"], c["op"])
        sw = switch_on(ab, c["sw_block"], c["lhs"]["l"])
        if not sw:
            continue
        if op in ("Gt", "Ge"):
            edge, eff = (c["sw_block"], sw[0]), op
        elif op in ("Le", "Lt"):
            edge, eff = (c["sw_block"], sw[1]), {"Le": "Gt", "Lt": "Ge"}[op]
        else:
            continue
        if not any(edge_dominates(ab, edge[0], edge[1], fb) for fb, _ in full):
            continue
        n += 1
        cmp_leaves = leaves(e, 1, []) + leaves(sz, -1, [])
        size_leaves = [x for x in cmp_leaves if x[0] == -1 and x[1][0] == "field" and x[1][2] == "size"]
        rest = [x for x in cmp_leaves if x not in size_leaves[:1]]

        def key(ls):
            const = sum(sg * lf[2] for sg, lf in ls if lf[0] == "const" and isinstance(lf[2], int))
            other = sorted(("+" if sg > 0 else "-") + show(lf) for sg, lf in ls if not (lf[0] == "const" and isinstance(lf[2], int)))
            return const, other
        kc, ka = key(rest), key(adv[0])
        if eff == "Ge":
            kc = (kc[0] + 1, kc[1])
        if len(size_leaves) == 1 and kc == ka:
            chk.ok("R19.4", "SegmentFull exactly when the advanced write offset would exceed `size`", ab.where(c["line"]))
        else:
            chk.fail("R19.4", APP, "space-check-inexact", "SegmentFull is returned when %s %s size, but the write advances the offset to %s: the test and the write disagree on "
                     "what fits (constant %+d vs %+d)" % (" ".join(kc[1])[:120], "> " if True else "", " ".join(ka[1])[:120], kc[0], ka[0]), ab, c["line"])
    chk.floor("R19.4", n, 1)


def _decision_boundary(chk, prog, hb, hev):
    """R19.3"""
    from .c13 import addsub_leaves
    chk.rule("R19.3", "DECISION BOUNDARY: both comparisons of the size estimate with segment_size are exact. Rollover: `write_offset + estimate (+ c) > segment_size` with "
                      "c >= 0 and nothing else on either side, and the rollover call sits on that edge - the boundary the segment writer's own SegmentFull test uses; a slack on "
                      "the segment's side leaves appends that the writer will refuse in the old segment, on every retry. Reject: `estimate + c > segment_size` with c exactly "
                      "the offset at which BucketSegmentWriter::create starts an empty segment - a larger c refuses transactions that fit an empty segment, a smaller one "
                      "admits transactions no rollover can make room for")
    # the start offset of an empty segment: third argument of seglog's Writer::create in BucketSegmentWriter::create
    cb = prog.body("sierradb::bucket::segment::writer::BucketSegmentWriter::create")
    chk.analysed(cb.path)
    cev = Ev(prog, cb)
    start = None
    for bi, t in cb.calls():
        if (cb.callee_decl(t) or "").endswith("Writer::<H>::create") and len(t["args"]) >= 3:
            v = strip(cev.operand(t["args"][2], (bi, "T")))
            while v[0] == "cast":
                v = strip(v[1])
            if v[0] == "const" and isinstance(v[2], int):
                start = v[2]
    if start is None:
        raise Inconclusive("BucketSegmentWriter::create: the start offset given to seglog's Writer::create is not a constant")
    n = 0
    for c in comparisons(prog, hb, hev):
        sa = any(isinstance(x, tuple) and x and x[0] == "field" and x[2] == "segment_size" for x in walk(c["a"]))
        sb_ = any(isinstance(x, tuple) and x and x[0] == "field" and x[2] == "segment_size" for x in walk(c["b"]))
        if sa == sb_:
            continue
        e, sz, op = (c["b"], c["a"], SWAP[c["op"]]) if sa else (c["a"], c["b"], c["op"])
        sw = switch_on(hb, c["sw_block"], c["lhs"]["l"])
        if not sw:
            continue
        n += 1
        if op in ("Gt", "Ge"):
            edge, eff = (c["sw_block"], sw[0]), op
        elif op in ("Le", "Lt"):
            edge, eff = (c["sw_block"], sw[1]), {"Le": "Gt", "Lt": "Ge"}[op]
        else:
            chk.fail("R19.3", HAE, "boundary-op", "the size estimate is compared with segment_size by %s" % op, hb, c["line"])
            continue
        const = 0
        stray = []
        has_off = False
        seen_size = False
        for side, sign0 in ((e, 1), (sz, -1)):
            for sg, lf in addsub_leaves(side):
                lf = strip(lf)
                while lf[0] == "cast":
                    lf = strip(lf[1])
                tot = sign0 * sg          # sign of the leaf in `estimate side - segment side`
                if lf[0] == "const" and isinstance(lf[2], int):
                    const += tot * lf[2]
                elif tot == -1 and lf[0] == "field" and lf[2] == "segment_size" and not seen_size:
                    seen_size = True
                elif tot == 1:
                    if any(isinstance(x, tuple) and x and x[0] == "call" and x[1].endswith("::write_offset") for x in walk(lf)):
                        has_off = True
                else:
                    stray.append("-" + show(lf)[:40])
        if eff == "Ge":
            const += 1          # x >= y  <=>  x + 1 > y
        if stray:
            chk.fail("R19.3", HAE, "boundary-term:" + ("rollover" if has_off else "reject"), "the comparison of the size estimate with segment_size carries an extra term (%s): its boundary "
                     "is no longer that of the segment writer's space check" % ", ".join(stray), hb, c["line"])
            continue
        if has_off:
            ro = [bi for bi, t in hb.calls() if (hb.callee(t) or hb.callee_decl(t) or "") == WS + "rollover"]
            on_edge = any(edge_dominates(hb, edge[0], edge[1], bi) for bi in ro)
            if const >= 0 and on_edge:
                chk.ok("R19.3", "rollover when write_offset + estimate%s > segment_size" % (" + %d" % const if const else ""), hb.where(c["line"]))
            elif const < 0:
                chk.fail("R19.3", HAE, "rollover-slack", "rollover is decided with a slack of %d bytes in favour of the old segment: an append whose estimate exceeds the remaining space by "
                         "less than that is written to the old segment, refused by the segment writer (SegmentFull), rolled back, and refused again on every retry" % -const, hb, c["line"])
            else:
                chk.fail("R19.3", HAE, "rollover-not-on-edge", "no call to WriterSet::rollover is dominated by the edge on which the append does not fit the live segment", hb, c["line"])
        else:
            if const == start:
                chk.ok("R19.3", "reject when estimate + %d > segment_size (%d = start offset of an empty segment)" % (const, start), hb.where(c["line"]))
            else:
                chk.fail("R19.3", HAE, "reject-boundary", "transactions are refused when estimate + %d > segment_size, but an empty segment starts at offset %d: %s" % (
                    const, start, "transactions that fit an empty segment are refused" if const > start else "transactions that no rollover can make room for are admitted and fail with SegmentFull forever"), hb, c["line"])
    chk.floor("R19.3", n, 2)


def _is_data_len(t):
    t = strip(t)
    if t[0] == "call" and t[1].endswith("::len") and t[2]:
        a = strip(t[2][0])
        return a[0] == "param" and a[2] == "data"
    return False


def _retry_on_full(prog):
    """accepted alternative: handle_append_events matches WriteError::SegmentFull of handle_write and calls rollover + handle_write again"""
    hb = prog.bodies.get(HAE)
    if hb is None:
        return False
    hw = calls(hb, WS + "handle_write")
    return len(hw) >= 2 and any(isinstance(s, dict) for s in []) or (len(hw) >= 2 and bool(calls(hb, WS + "rollover")))
