"""C19 - appends that fit an empty segment never fail for lack of space (R19.1-R19.2)."""
from ..facts import Program, Inconclusive, op_place
from ..flow import Ev, walk, resolve_upvars, show, strip
from ..gate import comparisons, switch_on, edge_dominates, linear, SWAP
from ..util import calls, ok_return_blocks, discr_switches

PREP = "seglog::write::Writer::<H>::prepare_data"
HAE = "sierradb::writer_thread_pool::Worker::handle_append_events"
WS = "sierradb::writer_thread_pool::WriterSet::"


def has_call(term, pred):
    return any(isinstance(x, tuple) and x and x[0] == "call" and pred(x[1]) for x in walk(term))


def local_roots(body, ev, term):
    """user variables (named locals) a term is built from, via Vec/Cow plumbing"""
    out = set()
    for x in walk(term):
        if isinstance(x, tuple) and x and x[0] == "call" and x[1].endswith("Vec::<T>::with_capacity"):
            out.add(("vec", x[3]))
        if isinstance(x, tuple) and x and x[0] == "call" and "zstd::bulk::compress" in x[1]:
            out.add(("compressed", x[3]))
    return out


def run(chk, facts_dir, tier):
    prog = Program(facts_dir, crates=["sierradb-lib", "seglog-lib"])
    chk.rule("R19.1", "STORED <= ESTIMATED: Writer::prepare_data returns the compressed form only on the edge of a comparison `stored.len() < data.len()` where `stored` is "
                      "the very buffer that is returned (size prefix included); accepted alternative: handle_append_events matches SegmentFull and retries after a rollover")
    chk.rule("R19.2", "ONE ESTIMATE: the rollover decision, the EventsExceedSegmentSize test and the space check see the same events_size, built from EVENT_HEADER_SIZE + the four "
                      "variable lengths per event + COMMIT_SIZE for unflagged transactions")
    chk.not_decided += ["the numeric equality of the estimate with the encoded size (bincode layout)", "zstd's output sizes"]

    pb = prog.body(PREP)
    chk.analysed(pb.path)
    ev = Ev(prog, pb)
    # Ok returns carrying Cow::Owned (the compressed form)
    n = 0
    retry = _retry_on_full(prog)
    for ob, s in ok_return_blocks(pb):
        term = ev.operand(s["rv"]["ops"][0], (ob, 0))
        owned = [x for x in walk(term) if isinstance(x, tuple) and x and x[0] == "agg" and x[1].endswith("Cow::Owned")]
        if not owned:
            continue
        n += 1
        stored = owned[0][2][0]
        stored_roots = local_roots(pb, ev, stored)
        good = False
        seen = []
        for c in comparisons(prog, pb, ev):
            a, b, op = c["a"], c["b"], c["op"]
            la = has_call(a, lambda n_: n_.endswith("::len"))
            lb = has_call(b, lambda n_: n_.endswith("::len"))
            if not (la and lb):
                continue
            pa = _is_data_len(a)
            pb_ = _is_data_len(b)
            if pa == pb_:
                continue
            other, op2 = (b, SWAP[op]) if pa else (a, op)
            # other.len() op2 data.len()
            sw = switch_on(pb, c["sw_block"], c["lhs"]["l"])
            if not sw:
                continue
            edge = (c["sw_block"], sw[0]) if op2 in ("Lt", "Le") else ((c["sw_block"], sw[1]) if op2 in ("Ge", "Gt") else None)
            if not edge:
                continue
            strict = op2 in ("Lt", "Ge") or True
            same = local_roots(pb, ev, other) == stored_roots and bool(stored_roots) and linear(strip(other))[1] == 0
            dom = edge_dominates(pb, edge[0], edge[1], ob)
            seen.append("%s %s data.len()%s%s" % (show(other)[:50], op2, " [dominates]" if dom else "", "" if same else " [not the returned buffer]"))
            if same and dom:
                good = True
        if good:
            chk.ok("R19.1", "compressed form returned only when the stored buffer is smaller than the input", pb.where(s["line"]))
        elif retry:
            chk.ok("R19.1", "compressed form may be larger, but handle_append_events retries after rollover on SegmentFull", pb.where(s["line"]))
        else:
            chk.fail("R19.1", PREP, "stored-larger-than-input", "the compressed form is returned without a dominating `stored.len() < data.len()` on the buffer that is actually stored "
                     "(comparisons seen: %s): a record can be stored larger than the size the database reserved for it and fail with SegmentFull on every retry" % seen, pb, s["line"])
    chk.floor("R19.1", n, 1)

    # ---------------- R19.2
    hb = prog.body(HAE)
    chk.analysed(hb.path)
    hev = Ev(prog, hb)
    es_terms = []
    for c in comparisons(prog, hb, hev):
        for side in (c["a"], c["b"]):
            if any(isinstance(x, tuple) and x and x[0] == "field" and x[2] == "segment_size" for x in walk(c["b"] if side is c["a"] else c["a"])):
                es_terms.append((side, c["line"]))
    # the estimate is whatever is compared with segment_size (up to constants): every such comparison must use one and the same value
    from .c13 import addsub_leaves

    def estimate_leaves(t):
        out = []
        for sg, lf in addsub_leaves(t):
            lf = strip(lf)
            if lf[0] == "const":
                continue
            if any(isinstance(x, tuple) and x and x[0] == "call" and x[1].endswith("::write_offset") for x in walk(lf)):
                continue          # the space already used in the live segment
            out.append(lf)
        return out

    bases = [" + ".join(sorted(show(x) for x in estimate_leaves(t))) for t, l in es_terms]
    est_bodies = list(prog.family(HAE))
    helper = None
    for t, l in es_terms:
        for lf in estimate_leaves(t):
            if lf[0] == "call" and lf[1] in prog.bodies:
                helper = lf[1]
    if helper:
        est_bodies += list(prog.family(helper))          # the computation was extracted into a private helper
    if len(es_terms) >= 2 and len(set(bases)) == 1:
        chk.ok("R19.2", "size test and rollover decision use the same events_size (%d comparisons against segment_size)" % len(es_terms), hb.where(es_terms[0][1]))
    else:
        chk.fail("R19.2", HAE, "estimate-split", "the EventsExceedSegmentSize test and the rollover decision do not use one and the same size estimate (%s)" % sorted(set(bases))[:3], hb)
    # summands
    if es_terms:
        named = set()
        len_fields = set()
        flag = False
        for b in est_bodies:
            for i, j, s in b.assigns():
                for o in (s["rv"].get("a"), s["rv"].get("b"), s["rv"].get("op")):
                    if isinstance(o, dict) and o.get("named"):
                        named.add(o["named"].split("::")[-1])
            bev_ = Ev(prog, b)
            for bi, t_ in b.calls():
                if (b.callee_decl(t_) or "").endswith("::len") and t_["args"]:
                    recv = bev_.operand(t_["args"][0], (bi, "T"))
                    for x in walk(recv):
                        if isinstance(x, tuple) and x and x[0] == "field" and x[2] in ("stream_id", "event_name", "metadata", "payload") and "NewEvent" in str(x[3]):
                            len_fields.add(x[2])
            if calls(b, "sierradb::id::get_uuid_flag"):
                flag = True
        need = {"EVENT_HEADER_SIZE", "COMMIT_SIZE", "SEGMENT_HEADER_SIZE"}
        lens = len(len_fields)
        if need <= named and lens >= 4 and flag:
            chk.ok("R19.2", "events_size = sum(EVENT_HEADER_SIZE + 4 lengths) + (COMMIT_SIZE unless flagged); checked against segment_size with SEGMENT_HEADER_SIZE", hb.where())
        else:
            chk.fail("R19.2", HAE, "estimate-summands", "the size estimate lost a summand (constants used: %s, variable lengths: %d, flag test: %s)" % (sorted(named & need), lens, flag), hb)
    return {}


def _is_data_len(t):
    t = strip(t)
    if t[0] == "call" and t[1].endswith("::len") and t[2]:
        a = strip(t[2][0])
        return a[0] == "param" and a[2] == "data"
    return False


def _retry_on_full(prog):
    """accepted alternative: handle_append_events matches WriteError::SegmentFull of handle_write and calls rollover + handle_write again"""
    hb = prog.bodies.get(HAE)
    if hb is None:
        return False
    hw = calls(hb, WS + "handle_write")
    return len(hw) >= 2 and any(isinstance(s, dict) for s in []) or (len(hw) >= 2 and bool(calls(hb, WS + "rollover")))
