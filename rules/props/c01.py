"""C01 - acknowledged appends are durable and immediately readable (R1.1-R1.6)."""
from ..facts import Program, Inconclusive, op_place
from ..flow import Ev, walk, resolve_upvars, show, strip
from ..gate import Classifier, linear
from ..util import calls, one_call, field_stores, ok_return_blocks, must_pass, try_continue_block, last_field, follow_copies, call_sites_incl_closures, forwarding_sites

WTP = "sierradb::writer_thread_pool::"
WS = WTP + "WriterSet"
BSW = "sierradb::bucket::segment::writer::BucketSegmentWriter::"
SEG = "seglog::write::Writer::<H>::"
WATCH_SENDS = ("tokio::sync::watch::Sender::<T>::send", "tokio::sync::watch::Sender::<T>::send_replace",
               "tokio::sync::watch::Sender::<T>::send_modify", "tokio::sync::watch::Sender::<T>::send_if_modified")


def has_field(term, name, owner_sub=""):
    return any(isinstance(x, tuple) and x and x[0] == "field" and x[2] == name and owner_sub in x[3] for x in walk(term))


def run(chk, facts_dir, tier):
    prog = Program(facts_dir, crates=["sierradb-lib", "seglog-lib"])
    chk.rule("R1.1", "MUST-PASS: every Ok return of WriterThreadPool::append_events passes wait_for(|synced| *synced >= full_append.write_offset) and its `?`")
    chk.rule("R1.2", "WHO-MAY publish: WriterSet.sync_tx is sent on only in WriterSet::sync, after the Continue edge of BucketSegmentWriter::sync and with its result; "
                     "seglog FlushedOffset::set is called only by Writer::sync (after flush and sync_data succeeded) and Writer::set_len")
    chk.rule("R1.3", "ORDER: in WriterSet::sync the pending index entries are drained into the three live indexes before the synced offset is published")
    chk.rule("R1.4", "PAIR(writer, sync_tx): a function that replaces WriterSet.writer also replaces WriterSet.sync_tx by a new watch channel created "
                     "from the new writer's write offset (reference sibling: Worker::new)")
    chk.rule("R1.5", "PAIR(write_offset, file cursor): seglog Writer::create/open/set_len seek the BufWriter to the value they store in write_offset")
    chk.rule("R1.6", "ROLLBACK TARGET: in handle_append_events the offset passed to set_len after a failed write is read after any rollover on the path to handle_write")
    chk.not_decided += ["byte-identical content of what is read back", "behaviour after reopen (C05)"]

    # ---------------- R1.1
    ab = prog.body(WTP + "WriterThreadPool::append_events::{closure#0}")
    chk.analysed(ab.path)
    ev = Ev(prog, ab)
    waits = calls(ab, "tokio::sync::watch::Receiver::<T>::wait_for")
    wait_body, wait_ev = ab, ev
    helper_wait = None
    if not waits:
        # the wait may have been extracted into a private async helper: `full_append.wait_until_synced().await?`
        for bi, t in ab.calls():
            hp = ab.callee(t) or ab.callee_decl(t) or ""
            hc = prog.bodies.get(hp + "::{closure#0}")
            if hc is None or hc.path == ab.path:
                continue
            hw_ = calls(hc, "tokio::sync::watch::Receiver::<T>::wait_for")
            if len(hw_) == 1:
                hoks = [x for x, _ in ok_return_blocks(hc)]
                if hoks and not must_pass(hc, hoks, [hw_[0][0]]):
                    helper_wait = (hc, hw_[0])
                    waits = [(bi, t)]
    if not waits:
        chk.fail("R1.1", WTP + "WriterThreadPool::append_events", "ok-without-wait", "append_events no longer waits for the synced offset before "
                 "acknowledging: the append is acknowledged before it is fsynced and indexed", ab)
        return {}
    if len(waits) != 1:
        raise Inconclusive("append_events: %d wait_for calls" % len(waits))
    wb, wt = waits[0]
    oks = ok_return_blocks(ab)
    if not oks:
        raise Inconclusive("append_events: no Ok return found")
    # the `?` applied to the awaited wait_for result: a Try::branch dominated by wait_for
    tries = [bi for bi, t in calls(ab, "Try::branch", suffix=True) if ab.dominates(wb, bi)]
    for ob, s in oks:
        bad = must_pass(ab, [ob], [wb])
        ok_try = any(ab.dominates(x, ob) for x in tries)
        if bad or not ok_try:
            chk.fail("R1.1", WTP + "WriterThreadPool::append_events", "ok-without-wait", "append_events can return Ok without waiting for the synced offset "
                     "(wait_for %s)" % ("bypassed" if bad else "not awaited/checked"), ab, s["line"])
        else:
            chk.ok("R1.1", "Ok return passes wait_for and its `?`", ab.where(s["line"]))
    if helper_wait is not None:
        wait_body, (pwb, pwt) = helper_wait
        wait_ev = Ev(prog, wait_body)
        chk.analysed(wait_body.path)
        cl = strip(wait_ev.operand(pwt["args"][1], (pwb, "T")))
    else:
        cl = strip(ev.operand(wt["args"][1], (wb, "T")))
    cls = Classifier(prog, lambda t: False, lambda t: False)
    okp = False
    desc = "?"
    if cl[0] == "agg" and cl[1].startswith("closure:"):
        ret = strip(cls.closure_return(cl[1].split(":", 1)[1]))
        if helper_wait is not None and ret[0] == "bin":
            ret = ("bin", ret[1], resolve_upvars(prog, ret[2], wait_body), resolve_upvars(prog, ret[3], wait_body)) + tuple(ret[4:])
        desc = show(ret)
        if ret[0] == "bin" and ret[1] == "Ge" and strip(ret[2])[0] == "param" and has_field(ret[3], "write_offset", "FullAppendResult"):
            okp = True
        if ret[0] == "bin" and ret[1] == "Le" and strip(ret[3])[0] == "param" and has_field(ret[2], "write_offset", "FullAppendResult"):
            okp = True
    if okp:
        chk.ok("R1.1", "wait_for predicate is `*synced >= full_append.write_offset`", ab.where(wt["line"]))
    else:
        chk.fail("R1.1", WTP + "WriterThreadPool::append_events", "wait-predicate", "the wait_for predicate is not `synced >= full_append.write_offset`: %s" % desc, ab, wt["line"])
    # the offset the client waits for is the writer's offset after the write, from the same worker reply
    hb = prog.body(WTP + "Worker::handle_append_events")
    chk.analysed(hb.path)
    hev = Ev(prog, hb)
    n_far = 0
    for b in prog.family(hb.path):
        e2 = Ev(prog, b)
        for i, j, s in b.assigns():
            if s["rv"]["k"] == "agg" and s["rv"]["ak"] == "adt:" + WTP + "FullAppendResult":
                n_far += 1
                fields = s["rv"]["fields"]
                wo = resolve_upvars(prog, e2.operand(s["rv"]["ops"][fields.index("write_offset")], (i, j)), b)
                rx = resolve_upvars(prog, e2.operand(s["rv"]["ops"][fields.index("sync_rx")], (i, j)), b)
                wo_ok = any(isinstance(x, tuple) and x and x[0] == "call" and x[1] == BSW + "write_offset" for x in walk(wo))
                rx_ok = any(isinstance(x, tuple) and x and x[0] == "call" and x[1].endswith("watch::Sender::<T>::subscribe") and has_field(x, "sync_tx", "WriterSet") for x in walk(rx))
                if wo_ok and rx_ok:
                    chk.ok("R1.1", "FullAppendResult{write_offset: writer.write_offset(), sync_rx: sync_tx.subscribe()}", b.where(s["line"]))
                else:
                    chk.fail("R1.1", hb.path, "full-append-result", "the reply does not carry the writer's current write offset and a subscription of the same writer set's sync channel", b, s["line"])
    if n_far == 0:
        raise Inconclusive("handle_append_events: FullAppendResult construction not found")

    # ---------------- R1.2 (sierradb side)
    sb = prog.body(WS + "::sync")
    chk.analysed(sb.path)
    sev = Ev(prog, sb)
    n_send = 0
    for b in prog.bodies.values():
        if b.crate != "sierradb-lib":
            continue
        e2 = None
        for bi, t in b.calls():
            c = b.callee_decl(t) or ""
            if c not in WATCH_SENDS:
                continue
            e2 = e2 or Ev(prog, b)
            recv = resolve_upvars(prog, e2.operand(t["args"][0], (bi, "T")), b)
            if not has_field(recv, "sync_tx", "WriterSet"):
                continue
            n_send += 1
            r = b.root or b.path
            if r != WS + "::sync":
                chk.fail("R1.2", r, "sync_tx-publisher", "the synced offset is published outside WriterSet::sync (no fsync on this path)", b, t["line"])
                continue
            syn_b, syn_t = one_call(sb, BSW + "sync")
            cont = try_continue_block(sb, syn_b)
            val = sev.operand(t["args"][1], (bi, "T"))
            from_sync = any(isinstance(x, tuple) and x and x[0] == "call" and x[1] == BSW + "sync" for x in walk(val))
            if cont is not None and sb.dominates(cont, bi) and from_sync:
                chk.ok("R1.2", "sync_tx publication follows a successful writer.sync() and carries its result", sb.where(t["line"]))
            else:
                chk.fail("R1.2", WS + "::sync", "publish-before-sync", "the synced offset is published without a preceding successful fsync, or with a value that is not the fsync's result (%s)" % show(val)[:80], sb, t["line"])
            # R1.3
            drains = calls(sb, "std::vec::Vec::<T, A>::drain")
            ins = {k: call_sites_incl_closures(prog, sb, k) for k in ("sierradb::bucket::event_index::OpenEventIndex::insert",
                                              "sierradb::bucket::partition_index::open::OpenPartitionIndex::insert",
                                              "sierradb::bucket::stream_index::open::OpenStreamIndex::insert")}
            after = sb.reach_after([bi])
            problems = []
            if not drains or not all(sb.dominates(d[0], bi) for d in drains):
                problems.append("the pending index entries are not drained before the publication")
            for k, v in ins.items():
                if not v:
                    problems.append("no %s in sync" % k.split("::")[-2])
                for ib, it in v:
                    if ib in after:
                        problems.append("%s is reachable after the publication" % k.split("::")[-2])
            # the loop must be complete: the send is not reachable from inside the loop body except through loop exit
            if problems:
                chk.fail("R1.3", WS + "::sync", "publish-before-index", "; ".join(problems), sb, t["line"])
            else:
                chk.ok("R1.3", "index entries drained into event/partition/stream index before the synced offset is published", sb.where(t["line"]))
    chk.floor("R1.2", n_send, 1)
    # sync_tx (re)creation sites: Worker::new aggregate and rollover store are fine; nothing else may construct a WriterSet
    # ---------------- R1.2 (seglog side)
    setters = prog.callers().get("seglog::FlushedOffset::set", [])
    allowed = {SEG + "sync", SEG + "set_len"}
    for b, bi in setters:
        r = b.root or b.path
        if r not in allowed:
            chk.fail("R1.2", r, "flushed-offset-writer", "FlushedOffset::set is called outside Writer::sync / Writer::set_len", b, b.term(bi)["line"])
    wsync = prog.body(SEG + "sync")
    chk.analysed(wsync.path)
    sets = calls(wsync, "seglog::FlushedOffset::set")
    flush = calls(wsync, "::flush", suffix=True)
    sd = calls(wsync, "std::fs::File::sync_data", "std::fs::File::sync_all")
    if len(sets) != 1 or not flush or not sd:
        chk.fail("R1.2", SEG + "sync", "sync-shape", "Writer::sync no longer has flush + sync_data + one FlushedOffset::set (%d/%d/%d)" % (len(flush), len(sd), len(sets)), wsync)
    else:
        fcont = try_continue_block(wsync, flush[0][0])
        scont = try_continue_block(wsync, sd[0][0])
        sblk = sets[0][0]
        if fcont is not None and scont is not None and wsync.dominates(fcont, sd[0][0]) and wsync.dominates(scont, sblk):
            wev = Ev(prog, wsync)
            val = wev.operand(sets[0][1]["args"][1], (sblk, "T"))
            if has_field(val, "write_offset", "Writer"):
                chk.ok("R1.2", "Writer::sync: flushed offset set to write_offset after flush and sync_data succeeded", wsync.where(sets[0][1]["line"]))
            else:
                chk.fail("R1.2", SEG + "sync", "flushed-value", "the flushed offset is set to something other than write_offset: %s" % show(val), wsync, sets[0][1]["line"])
        else:
            chk.fail("R1.2", SEG + "sync", "flushed-before-sync", "FlushedOffset::set is not dominated by the success edges of flush() and sync_data()", wsync, sets[0][1]["line"])
    chk.floor("R1.2-seglog", len(setters), 2)

    # ---------------- R1.4
    n_pair = 0
    for b in prog.bodies.values():
        if b.crate != "sierradb-lib":
            continue
        ws_stores = field_stores(b, "writer", "writer_thread_pool::WriterSet")
        if not ws_stores:
            continue
        n_pair += 1
        chk.analysed(b.path)
        e2 = Ev(prog, b)
        tx_stores = field_stores(b, "sync_tx", "writer_thread_pool::WriterSet")
        good = False
        why = "no store to sync_tx in the function"
        for (i, j, s) in tx_stores:
            term = e2._rvalue(s["rv"], (i, j), 0)
            ch = [x for x in walk(term) if isinstance(x, tuple) and x and x[0] == "call" and x[1] == "tokio::sync::watch::channel"]
            if not ch:
                why = "sync_tx is stored but not from a new watch::channel (%s)" % show(term)[:80]
                continue
            init = ch[0][2][0]
            from_new = any(isinstance(x, tuple) and x and x[0] == "call" and x[1] == BSW + "write_offset" and has_field(x, "writer", "WriterSet") for x in walk(init))
            after = all(i in b.reach_after([wi]) or (i == wi) for (wi, wj, ws_) in ws_stores)
            if from_new and after:
                good = True
            else:
                why = "the new channel is not initialised from the new writer's write_offset after the writer was replaced"
        if good:
            chk.ok("R1.4", "%s replaces writer and sync_tx together" % b.path.split("::")[-1], b.where(ws_stores[0][2]["line"]))
        else:
            chk.fail("R1.4", b.root or b.path, "writer-without-sync_tx", "the segment writer is replaced but the sync channel still carries the old segment's synced offset (%s): "
                     "appends to the new segment are acknowledged before they are fsynced and indexed" % why, b, ws_stores[0][2]["line"])
    chk.floor("R1.4", n_pair, 1)
    # reference sibling: Worker::new builds sync_tx from watch::channel(writer.write_offset())
    nb = prog.body(WTP + "Worker::new")
    chk.analysed(nb.path)
    nev = Ev(prog, nb)
    ok_new = False
    for i, j, s in nb.assigns():
        if s["rv"]["k"] == "agg" and s["rv"]["ak"] == "adt:" + WS:
            f = s["rv"]["fields"]
            tx = nev.operand(s["rv"]["ops"][f.index("sync_tx")], (i, j))
            if any(isinstance(x, tuple) and x and x[0] == "call" and x[1] == "tokio::sync::watch::channel" and
                   any(isinstance(y, tuple) and y and y[0] == "call" and y[1] == BSW + "write_offset" for y in walk(x)) for x in walk(tx)):
                ok_new = True
    if ok_new:
        chk.ok("R1.4", "Worker::new: sync_tx = watch::channel(writer.write_offset())", nb.where())
    else:
        chk.fail("R1.4", WTP + "Worker::new", "initial-sync_tx", "the initial sync channel is not created from the writer's write offset", nb)

    # ---------------- R1.5
    for fn in ("create", "open", "set_len"):
        b = prog.body(SEG + fn)
        chk.analysed(b.path)
        e2 = Ev(prog, b)
        vals = []
        for i, j, s in b.assigns():
            if s["rv"]["k"] == "agg" and s["rv"]["ak"] == "adt:seglog::write::Writer":
                f = s["rv"]["fields"]
                vals.append((i, e2.operand(s["rv"]["ops"][f.index("write_offset")], (i, j)), s["line"]))
        for i, j, s in field_stores(b, "write_offset", "seglog::write::Writer"):
            vals.append((i, e2._rvalue(s["rv"], (i, j), 0), s["line"]))
        if not vals:
            raise Inconclusive("%s: no store to write_offset found" % b.path)
        seeks = []
        for bi, t in calls(b, "Seek::seek", suffix=True):
            a = strip(e2.operand(t["args"][1], (bi, "T")))
            if a[0] == "agg" and a[1].endswith("SeekFrom::Start"):
                seeks.append((bi, a[2][0], t["line"]))
        for (i, v, line) in vals:
            m = [sk for sk in seeks if show(strip(sk[1])) == show(strip(v))]
            # the seek must be on every path to a normal return after/around the store: require that it dominates the Ok return or the store dominates it
            good = False
            for (sbk, sv, sl) in m:
                okr = [x for x, _ in ok_return_blocks(b)]
                # the seek either precedes the store on every path, or follows it on every path to Ok
                if b.dominates(sbk, i) or (okr and not must_pass(b, okr, [sbk], start=i)):
                    good = True
            if good:
                chk.ok("R1.5", "Writer::%s seeks to the write offset it stores" % fn, b.where(line))
            else:
                chk.fail("R1.5", SEG + fn, "offset-without-seek", "write_offset is set to %s but the BufWriter is not positioned there on every path to Ok "
                         "(seeks: %s): the next append lands elsewhere than where it is reported" % (show(v)[:60], [show(x[1])[:40] for x in seeks]), b, line)
    # any other writer of write_offset must be `old + n`
    for b in prog.bodies.values():
        if b.crate != "seglog-lib" or b.path in (SEG + "create", SEG + "open", SEG + "set_len"):
            continue
        e2 = None
        for i, j, s in field_stores(b, "write_offset", "seglog::write::Writer"):
            e2 = e2 or Ev(prog, b)
            term = e2._rvalue(s["rv"], (i, j), 0)
            base, off = linear(term)
            tt = strip(term)
            is_inc = tt[0] == "field" and tt[1][0] == "bin" and tt[1][1] in ("AddWithOverflow", "Add") and has_field(tt[1][2], "write_offset", "Writer") or \
                (tt[0] == "bin" and tt[1] in ("Add", "AddWithOverflow") and has_field(tt[2], "write_offset", "Writer"))
            if is_inc and (b.path == SEG + "append"):
                chk.ok("R1.5", "Writer::append advances write_offset by the bytes written", b.where(s["line"]))
            else:
                chk.fail("R1.5", b.path, "offset-writer", "write_offset is stored outside create/open/set_len/append or not as `old + n`", b, s["line"])

    # ---------------- R1.6
    ro = calls(hb, WS + "::rollover")
    hw = calls(hb, WS + "::handle_write")
    sl = forwarding_sites(prog, hb, BSW + "set_len", 1)
    if len(hw) != 1 or len(sl) != 1:
        raise Inconclusive("handle_append_events: expected one handle_write and one set_len")
    p = op_place(sl[0][1]["args"][1])
    L = follow_copies(hb, p["l"])
    defs = [d for d in hb.defs.get(L, []) if not d[2]["p"]]
    def_blocks = set()
    all_wo = True
    for (bi, si, lhs, rv) in defs:
        term = hev._rvalue(rv, (bi, si), 0)
        if not any(isinstance(x, tuple) and x and x[0] == "call" and x[1] == BSW + "write_offset" for x in walk(term)):
            all_wo = False
        def_blocks.add(bi)
    if not defs or not all_wo:
        chk.fail("R1.6", hb.path, "rollback-offset-source", "the offset passed to set_len is not a write_offset() of the writer", hb, sl[0][1]["line"])
    else:
        bad = False
        for rb_, rt in ro:
            # from the rollover's success continuation, can handle_write be reached without re-reading the offset?
            r = hb.reach_after([rb_], avoid=frozenset(def_blocks))
            if hw[0][0] in r:
                bad = True
        if bad:
            chk.fail("R1.6", hb.path, "rollback-offset-stale", "the rollback offset is read before a possible rollover: after rolling over, a failed write is "
                     "'rolled back' to an offset of the old segment, which is a no-op, and its events stay in the new segment", hb, sl[0][1]["line"])
        else:
            chk.ok("R1.6", "set_len target is re-read after rollover on every path to handle_write", hb.where(sl[0][1]["line"]))
    check_truncation_marker(chk, prog, "R1.7")
    chk.rule("R1.8", "ROLLOVER SYNCS FIRST: WriterSet::rollover calls sync() unconditionally and continues only on its success, before the writer, the live indexes and the sync "
                     "channel are replaced: otherwise the un-synced entries of the old segment (pending_indexes hold offsets into the OLD file) are later published into the new "
                     "segment's indexes and acknowledged appends cannot be read back")
    from . import c20
    c20.rollover_syncs_first(chk, prog, "R1.8")
    check_rollback_reached(chk, prog, hb, hev, hw, sl)
    return {}


FLUSHERS = ("std::io::Write::flush", "std::io::Seek::seek", SEG + "sync", SEG + "flush_writer", "std::io::Write::write_all",
            "std::io::Write::write")


def check_truncation_marker(chk, prog, rule):
    """R1.7: in Writer::set_len the zero truncation marker is written after the last flush of buffered
    data (a later flush would overwrite it with the rejected records) and is synced before Ok."""
    chk.rule(rule, "TRUNCATION MARKER: in seglog Writer::set_len the zero marker is written (positional write at the new offset) only after the "
                   "buffered data was flushed, nothing flushes the BufWriter afterwards, and sync_data follows on the path to Ok")
    b = prog.body(SEG + "set_len")
    chk.analysed(b.path)
    ev = Ev(prog, b)
    marks = calls(b, "FileExt::write_all_at", "FileExt::write_at", suffix=True)
    if len(marks) != 1:
        chk.fail(rule, SEG + "set_len", "marker-missing", "set_len does not write exactly one truncation marker (found %d positional writes)" % len(marks), b)
        return
    mb, mt = marks[0]
    at = strip(ev.operand(mt["args"][2], (mb, "T")))
    if not (at[0] == "param" and at[2] == "offset"):
        chk.fail(rule, SEG + "set_len", "marker-position", "the truncation marker is not written at the new offset: %s" % show(at), b, mt["line"])
    flush_before = [bi for bi, t in calls(b, *FLUSHERS) if b.dominates(bi, mb)]
    after = b.reach_after([mb])
    flush_after = [(bi, t) for bi, t in calls(b, *FLUSHERS) if bi in after]
    if not flush_before:
        chk.fail(rule, SEG + "set_len", "marker-before-flush", "the truncation marker is written before the buffered records were flushed", b, mt["line"])
    elif flush_after:
        chk.fail(rule, SEG + "set_len", "flush-after-marker", "after the truncation marker is written the BufWriter is flushed again (%s at L%d): buffered bytes of the "
                 "rejected write land on top of the marker, and a reopen adopts them as valid records" % ((flush_after[0][1]["f"].get("fn") or "").split("::")[-1], flush_after[0][1]["line"]), b, mt["line"])
    else:
        chk.ok(rule, "marker written after the last flush of buffered data", b.where(mt["line"]))
    syncs = [bi for bi, t in calls(b, "std::fs::File::sync_data", "std::fs::File::sync_all") if bi in after]
    okr = [x for x, s in ok_return_blocks(b)]
    if syncs and not [x for x in must_pass(b, okr, syncs, start=mb)]:
        chk.ok(rule, "marker is synced before set_len returns Ok", b.where(mt["line"]))
    else:
        chk.fail(rule, SEG + "set_len", "marker-not-synced", "the truncation marker is not fsynced on every path to Ok", b, mt["line"])


def check_rollback_reached(chk, prog, hb, hev, hw, sl, rule="R1.6"):
    """R1.6b: the Err result of handle_write always reaches set_len before the reply is sent"""
    from ..gate import switch_on
    hwb = hw[0][0]
    slb = sl[0][0]
    sends = calls(hb, "tokio::sync::oneshot::Sender::<T>::send")
    after_hw = hb.reach_after([hwb])
    reply_after = [bi for bi, t in sends if bi in after_hw]
    # find the is_err() switch on handle_write's result
    ise = [(bi, t) for bi, t in calls(hb, "Result::<T, E>::is_err", suffix=True) if bi in after_hw]
    ok = False
    for bi, t in ise:
        sw = switch_on(hb, t["target"], t["dest"]["l"])
        if sw and slb in hb.reach_from([sw[0]]) and not [x for x in must_pass(hb, reply_after, [slb], start=sw[0])]:
            ok = True
    if ok:
        chk.ok(rule, "a failed handle_write always reaches set_len before the reply", hb.where(sl[0][1]["line"]))
    else:
        chk.fail(rule, hb.path, "rollback-skipped", "there is a path from a failed handle_write to the reply that does not truncate the partial write", hb, sl[0][1]["line"])
