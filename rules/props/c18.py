"""C18 - segment-log readers never serve stale or unflushed data (R18.1-R18.3)."""
from ..facts import Program, Inconclusive, op_place
from ..flow import Ev, walk, show, strip
from ..gate import linear, switch_on, edge_dominates
from ..util import calls, field_stores, ok_return_blocks, must_pass

RAB = "seglog::read::ReadAheadBuf::"
RD = "seglog::read::Reader::<H>::"


def has_call(term, pred):
    return any(isinstance(x, tuple) and x and x[0] == "call" and pred(x[1]) for x in walk(term))


def has_param(term, name):
    return any(isinstance(x, tuple) and x and x[0] == "param" and x[2] == name for x in walk(term))


def run(chk, facts_dir, tier):
    prog = Program(facts_dir, crates=["seglog-lib"])
    chk.rule("R18.1", "CACHE VALIDITY: the number of bytes ReadAheadBuf::fill marks as valid is bounded by a flushed offset (valid_len depends on the flushed_offset "
                      "argument through min), and that argument is the FlushedOffset::load() of the read that fills the buffer")
    chk.rule("R18.2", "HEADER REPLACEMENT: replace_header_with invalidates the read-ahead buffer for a range that starts no later than the bytes it rewrites and "
                      "depends on the record length, then syncs the file before returning Ok(true)")
    chk.rule("R18.3", "WHO-MAY move the flushed offset: FlushedOffset::set is called only by Writer::sync and Writer::set_len (see C01 R1.2); FlushedOffset::set is crate-private")
    chk.not_decided += ["the interleavings themselves", "stale cache contents after a truncation that is later overwritten (needs a generation counter; the window requires "
                        "a reader to fill its buffer between set_len's internal sync and its flushed-offset reset)"]

    fb = prog.body(RAB + "fill")
    chk.analysed(fb.path)
    fev = Ev(prog, fb)
    st = field_stores(fb, "valid_len", "ReadAheadBuf")
    if not st:
        raise Inconclusive("ReadAheadBuf::fill: no store to valid_len")
    for i, j, s in st:
        term = fev._rvalue(s["rv"], (i, j), 0)
        if has_param(term, "flushed_offset") and has_call(term, lambda n: n.endswith("::min")):
            chk.ok("R18.1", "valid_len = min(bytes read, flushed_offset - buffer start)", fb.where(s["line"]))
        elif _bounded_by_branches(prog, fb, fev, s):
            chk.ok("R18.1", "valid_len = if read < flushed { read } else { flushed } (every alternative is the flushed bound or is compared below it)", fb.where(s["line"]))
        else:
            chk.fail("R18.1", RAB + "fill", "valid-beyond-flushed", "the read-ahead buffer marks bytes as valid without bounding them by the flushed offset (%s): bytes beyond it "
                     "are not final and are later served stale" % show(term)[:80], fb, s["line"])
    # R18.5: raw reads are bounded by the flushed offset
    chk.rule("R18.5", "READS STAY BELOW THE FLUSHED OFFSET: every positional read of Reader::read_record / read_record_sequential / read_bytes is dominated by a comparison of its "
                      "end with the flushed offset itself or with `flushed - offset` (plain, checked or saturating); a symmetric difference (abs_diff) or a wrapping form is not a "
                      "bound: a read that starts far enough beyond the flushed offset passes it and returns bytes the writer may still roll back (shared with C17 R17.4)")
    from . import c17
    c17.bounds_checked(chk, prog, "R18.5", c17.READERS[:2] + ("seglog::read::Reader::<H>::read_bytes",))
    # R18.4: nothing is carried over from a previous fill beyond what was valid then
    chk.rule("R18.4", "NO CARRY-OVER: the bytes ReadAheadBuf::fill counts as read are read in that call: the counter that positions the positional reads into the buffer starts at 0, "
                      "or at the unmodified old valid_len (bytes that were below the flushed offset when they were read); anything else (e.g. valid_len rounded up to a page) keeps bytes "
                      "that were read while they were still beyond the flushed offset")
    ras = [(bi, t) for bi, t in fb.calls() if (fb.callee_decl(t) or "").endswith("FileExt::read_at")]
    if not ras:
        raise Inconclusive("ReadAheadBuf::fill: no positional read found")
    n4 = 0
    for bi, t in ras:
        # the buffer slice is `self.buf[counter..]`: find the RangeFrom { start: counter } feeding the first argument
        ctr = None
        for i, j, st in fb.assigns():
            if st["rv"]["k"] == "agg" and st["rv"]["ak"].endswith("ops::RangeFrom") and fb.dominates(i, bi):
                p = op_place(st["rv"]["ops"][0])
                if p is not None and not p["p"]:
                    ctr = _root(fb, p["l"])
        if ctr is None:
            chk.inconc("ReadAheadBuf::fill: the buffer position of the positional read at L%s is not a `buf[counter..]` slice" % t.get("line"))
            continue
        loop = fb.reach_from([t["target"]]) if t.get("target") is not None else set()
        for (di, dj, lhs, drv) in fb.defs.get(ctr, []):
            if lhs["p"]:
                continue
            if di in loop and fb.dominates(bi, di):
                continue          # the in-loop increment by the bytes just read
            n4 += 1
            term = strip(fev._rvalue(drv, (di, dj), 0))
            if term[0] == "const" and term[2] == 0:
                chk.ok("R18.4", "read counter starts at 0", fb.where(fb.stmts(di)[dj]["line"] if dj != "T" else None))
            elif term[0] == "field" and term[2] == "valid_len":
                chk.ok("R18.4", "read counter starts at the old valid_len", fb.where())
            elif term[0] == "phi" and all(strip(a)[0] == "const" and strip(a)[2] == 0 or (strip(a)[0] == "field" and strip(a)[2] == "valid_len") for a in term[1]):
                chk.ok("R18.4", "read counter starts at 0 or at the old valid_len", fb.where())
            else:
                chk.fail("R18.4", RAB + "fill", "carry-over", "the buffer keeps %s bytes from an earlier fill without reading them again: bytes between the old flushed offset and that "
                         "point were read while the writer could still change them, and are now served as flushed data" % show(term)[:70], fb, fb.stmts(di)[dj]["line"] if dj != "T" else None)
    chk.floor("R18.4", n4, 1)
    # the hit test in read() uses valid_len
    rb = prog.body(RAB + "read")
    chk.analysed(rb.path)
    rev = Ev(prog, rb)
    fills = calls(rb, RAB + "fill")
    if len(fills) == 1 and len(fills[0][1]["args"]) >= 5 and has_param(rev.operand(fills[0][1]["args"][4], (fills[0][0], "T")), "flushed_offset"):
        chk.ok("R18.1", "read() passes its flushed_offset on to fill()", rb.where(fills[0][1]["line"]))
    else:
        chk.fail("R18.1", RAB + "read", "flushed-not-forwarded", "ReadAheadBuf::read does not forward the caller's flushed offset to fill", rb)
    # callers of ReadAheadBuf::read pass a flushed offset loaded in the same read
    n = 0
    for b, bi in prog.callers().get(RAB + "read", []):
        n += 1
        chk.analysed(b.path)
        ev = Ev(prog, b)
        if len(b.term(bi)["args"]) < 5:
            chk.fail("R18.1", b.path, "cache-read-without-flushed", "the read-ahead buffer is consulted without a flushed-offset bound", b, b.term(bi)["line"])
            continue
        arg = ev.operand(b.term(bi)["args"][4], (bi, "T"))
        if has_param(arg, "flushed_offset") or has_call(arg, lambda n_: n_ == "seglog::FlushedOffset::load"):
            chk.ok("R18.1", "%s reads the buffer under its flushed offset" % b.path.split("::")[-1], b.where(b.term(bi)["line"]))
        else:
            chk.fail("R18.1", b.path, "cache-read-without-flushed", "the read-ahead buffer is consulted with a bound that is not the flushed offset: %s" % show(arg)[:60], b, b.term(bi)["line"])
    chk.floor("R18.1", n, 2)
    sq = prog.callers().get(RD + "read_record_sequential", [])
    for b, bi in sq:
        ev = Ev(prog, b)
        arg = ev.operand(b.term(bi)["args"][2], (bi, "T"))
        if has_call(arg, lambda n_: n_ == "seglog::FlushedOffset::load"):
            chk.ok("R18.1", "read_record loads the flushed offset once and hands it to the sequential path", b.where(b.term(bi)["line"]))
        else:
            chk.fail("R18.1", b.path, "stale-flushed", "read_record_sequential is given a flushed offset that was not loaded by this read: %s" % show(arg)[:60], b, b.term(bi)["line"])

    # ---------------- R18.2
    hb = prog.body(RD + "replace_header_with")
    chk.analysed(hb.path)
    hev = Ev(prog, hb)
    wr = calls(hb, "FileExt::write_all_at", suffix=True)
    ov = calls(hb, RAB + "overlaps")
    inv = calls(hb, RAB + "invalidate")
    sd = calls(hb, "std::fs::File::sync_data", "std::fs::File::sync_all")
    if len(wr) != 1 or len(ov) != 1 or len(inv) != 1 or not sd:
        chk.fail("R18.2", RD + "replace_header_with", "replace-shape", "replace_header_with no longer has one positional write, one overlaps test, one invalidate and a sync (%d/%d/%d/%d)" % (len(wr), len(ov), len(inv), len(sd)), hb)
    else:
        wpos = hev.operand(wr[0][1]["args"][2], (wr[0][0], "T"))
        ipos = hev.operand(ov[0][1]["args"][1], (ov[0][0], "T"))
        ilen = hev.operand(ov[0][1]["args"][2], (ov[0][0], "T"))
        wb, wo = linear(wpos)
        ib, io = linear(ipos)
        same_base = show(strip(wb)) == show(strip(ib))
        len_dep = any(isinstance(x, tuple) and x and x[0] == "field" and x[2] == "len" and "Record" in x[3] for x in walk(ilen))
        if same_base and io <= wo and len_dep:
            chk.ok("R18.2", "invalidated range starts at offset%+d <= rewritten bytes at offset%+d and spans the record" % (io, wo), hb.where(ov[0][1]["line"]))
        else:
            chk.fail("R18.2", RD + "replace_header_with", "invalidate-range", "the cache invalidation test covers [%s, +%s) but the bytes rewritten start at %s: a buffered copy of the "
                     "rewritten checksum/header can survive and is served with the new payload read from disk" % (show(ipos)[:40], show(ilen)[:40], show(wpos)[:40]), hb, ov[0][1]["line"])
        sw = switch_on(hb, ov[0][1]["target"], ov[0][1]["dest"]["l"])
        if sw and edge_dominates(hb, ov[0][1]["target"], sw[0], inv[0][0]) and hb.dominates(wr[0][0], ov[0][0]):
            chk.ok("R18.2", "invalidate() on the overlapping edge, after the write", hb.where(inv[0][1]["line"]))
        else:
            chk.fail("R18.2", RD + "replace_header_with", "invalidate-order", "the buffer is not invalidated on the overlap edge after the header was rewritten", hb, inv[0][1]["line"])
        oks = [x for x, s in ok_return_blocks(hb) if hb.dominates(wr[0][0], x)]
        if oks and not must_pass(hb, oks, [x[0] for x in sd], start=wr[0][0]):
            chk.ok("R18.2", "sync_data before Ok(true)", hb.where(sd[0][1]["line"]))
        else:
            chk.fail("R18.2", RD + "replace_header_with", "replace-not-synced", "the rewritten header is not synced before Ok(true)", hb)

    # ---------------- R18.3
    setters = prog.callers().get("seglog::FlushedOffset::set", [])
    allowed = {"seglog::write::Writer::<H>::sync", "seglog::write::Writer::<H>::set_len"}
    for b, bi in setters:
        r = b.root or b.path
        if r in allowed:
            chk.ok("R18.3", "FlushedOffset::set called from %s" % r.split("::")[-1], b.where(b.term(bi)["line"]))
        else:
            chk.fail("R18.3", r, "flushed-offset-writer", "FlushedOffset::set is called outside Writer::sync / Writer::set_len", b, b.term(bi)["line"])
    chk.floor("R18.3", len(setters), 2)
    sb = prog.body("seglog::FlushedOffset::set")
    if sb.d.get("vis", "").startswith("Restricted") or "Restricted" in sb.d.get("vis", ""):
        chk.ok("R18.3", "FlushedOffset::set is pub(crate)", sb.where())
    else:
        chk.fail("R18.3", sb.path, "flushed-set-public", "FlushedOffset::set is public: code outside seglog can declare unflushed bytes immutable", sb)
    return {}


def _root(body, l):
    for _ in range(8):
        ds = [d for d in body.defs.get(l, []) if not d[2]["p"]]
        if len(ds) != 1 or ds[0][3]["k"] != "use":
            break
        p = op_place(ds[0][3]["op"])
        if p is None or p["p"]:
            break
        l = p["l"]
    return l


def _bounded_by_branches(prog, body, ev, store):
    """the stored value is a local whose every definition is either derived from the flushed offset or made on the edge of a
    comparison `that value < / <= (something derived from the flushed offset)`"""
    rv = store["rv"]
    if rv["k"] != "use":
        return False
    p = op_place(rv["op"])
    if p is None or p["p"]:
        return False
    l = _root(body, p["l"])
    defs = [d for d in body.defs.get(l, []) if not d[2]["p"]]
    if len(defs) < 2:
        return False
    cmps = []
    for bi, si, st in body.assigns():
        r = st["rv"]
        if r["k"] == "bin" and r["o"] in ("Lt", "Le", "Gt", "Ge"):
            sw = switch_on(body, bi, st["lhs"]["l"])
            if sw:
                cmps.append((bi, si, r, sw))
    for (bi, si, lhs, drv) in defs:
        term = ev._rvalue(drv, (bi, si), 0)
        if has_param(term, "flushed_offset"):
            continue
        if drv["k"] != "use" or op_place(drv["op"]) is None or op_place(drv["op"])["p"]:
            return False
        src = _root(body, op_place(drv["op"])["l"])
        ok = False
        for (cb, cs, r, sw) in cmps:
            pa, pb = op_place(r["a"]), op_place(r["b"])
            if pa is None or pb is None or pa["p"] or pb["p"]:
                continue
            ra, rb = _root(body, pa["l"]), _root(body, pb["l"])
            ta, tb = ev.operand(r["a"], (cb, cs)), ev.operand(r["b"], (cb, cs))
            o = r["o"]
            if ra == src and has_param(tb, "flushed_offset"):
                edge = sw[0] if o in ("Lt", "Le") else sw[1]          # src < F on the true edge of Lt/Le, on the false edge of Gt/Ge
            elif rb == src and has_param(ta, "flushed_offset"):
                edge = sw[0] if o in ("Gt", "Ge") else sw[1]          # F > src
            else:
                continue
            if edge_dominates(body, cb, edge, bi):
                ok = True
        if not ok:
            return False
    return True
