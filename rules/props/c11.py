"""C11 - acknowledged replicated writes persist on a quorum (R11.1-R11.5)."""
from ..facts import Program, Inconclusive, op_place
from ..flow import Ev, walk, resolve_upvars, show, strip
from ..gate import comparisons, switch_on, edge_dominates, linear, SWAP
from ..util import calls, ok_return_blocks, variant_edge_dominates, discr_switches
from .. import quorum

TX = "sierradb_cluster::write::transaction::"
RUN = TX + "run::{closure#0}"
SPAWN = TX + "spawn"
RETRY = TX + "set_confirmations_with_retry"


def has_call(term, pred):
    return any(isinstance(x, tuple) and x and x[0] == "call" and pred(x[1]) for x in walk(term))


def len_of_confirmed(term):
    t = strip(term)
    return t[0] == "call" and t[1].endswith("::len") and ("ArrayVec" in t[1] or "arrayvec" in t[1])


def quorum_len_gate(prog, body, ev, block):
    """block dominated by the true edge of confirmed_replicas.len() >= rf/2+1 ?"""
    seen = []
    ok = False
    quorum.set_prog(prog)
    for c in comparisons(prog, body, ev):
        nz = quorum.normalise(c["op"], c["a"], c["b"])
        if nz is None:
            continue
        count, q, op = nz
        if not len_of_confirmed(count) or not quorum.quorum_shape(q) or linear(count)[1] != 0:
            continue
        sw = switch_on(body, c["sw_block"], c["lhs"]["l"])
        # the bool may be stored in a named local first (`let has_quorum = ..; if has_quorum`)
        if sw is not None:
            sw = (c["sw_block"], sw[0], sw[1])
        else:
            sw = _switch_via_local(body, c)
        if sw is None:
            continue
        sb, tr, fa = sw
        edge = (sb, tr) if op == "Ge" else ((sb, fa) if op == "Lt" else None)
        if edge is None:
            continue
        dom = edge_dominates(body, edge[0], edge[1], block)
        seen.append("len %s quorum L%d%s" % (op, c["line"], " [dominates]" if dom else ""))
        ok = ok or dom
    return ok, seen


def _switch_via_local(body, c):
    """`has_quorum = a >= b; ...; switch(copy has_quorum)` in a later block"""
    lhs = c["lhs"]
    if lhs["p"]:
        return None
    src = lhs["l"]
    # find named local receiving the temp
    holders = {src}
    for i, j, s in body.assigns():
        if s["rv"]["k"] == "use" and not s["lhs"]["p"]:
            p = op_place(s["rv"]["op"])
            if p and not p["p"] and p["l"] in holders:
                holders.add(s["lhs"]["l"])
    for bi, blk in enumerate(body.blocks):
        t = blk["t"]
        if t["k"] != "switch":
            continue
        p = op_place(t["op"])
        if p is None or p["p"]:
            continue
        l = p["l"]
        # follow copies inside the block
        for s in reversed(blk["s"]):
            if s["k"] == "assign" and s["lhs"]["l"] == l and not s["lhs"]["p"] and s["rv"]["k"] == "use":
                q = op_place(s["rv"]["op"])
                if q and not q["p"]:
                    l = q["l"]
        if l in holders:
            # single definition of the holder required (no other assignment)
            if all(len([d for d in body.defs.get(h, []) if not d[2]["p"]]) == 1 for h in holders):
                zero = [tgt for v, tgt in t["targets"] if v == "0"]
                if zero:
                    return bi, t["otherwise"], zero[0]
    return None


def run(chk, facts_dir, tier):
    prog = Program(facts_dir, crates=["sierradb_cluster-lib"])
    chk.rule("R11.1", "QUORUM BEFORE OK: every Ok return of transaction::run is dominated by the true edge of confirmed_replicas.len() >= rf/2+1; "
                      "confirmed_replicas starts as [None] (the coordinator) and grows only on the Ok arm of a replica reply")
    chk.rule("R11.2", "CONFIRM BEFORE ACK: in transaction::spawn every reply carrying Ok is dominated by the Ok arm of set_confirmations_with_retry")
    chk.rule("R11.3", "the confirmation count written is confirmed_replicas.len()")
    chk.rule("R11.4", "set_confirmations_with_retry returns Ok only on the Ok arm of Database::set_confirmations")
    chk.not_decided += ["'never replaced, rolled back or hidden by any later history' (histories)", "that an append that returned Ok is durable (C01)"]

    rb = prog.body(RUN)
    chk.analysed(rb.path)
    ev = Ev(prog, rb)
    oks = ok_return_blocks(rb)
    if not oks:
        raise Inconclusive("transaction::run: no Ok return")
    for ob, s in oks:
        ok, seen = quorum_len_gate(prog, rb, ev, ob)
        if ok:
            chk.ok("R11.1", "Ok return gated by confirmed_replicas.len() >= quorum", rb.where(s["line"]))
        else:
            chk.fail("R11.1", TX + "run", "ok-without-quorum", "transaction::run can return Ok without `confirmed_replicas.len() >= rf/2+1` on that path (gates seen: %s)" % seen, rb, s["line"])
    chk.floor("R11.1", len(oks), 2)
    # growth of confirmed_replicas
    count_only_acks(chk, prog, rb, ev, "R11.1")
    # initial value: ArrayVec::from_iter([None])
    init_ok = False
    for bi, t in rb.calls():
        if "from_iter" in (rb.callee_decl(t) or "") and "ArrayVec" in rb.local_ty(t["dest"]["l"]):
            arg = ev.operand(t["args"][0], (bi, "T"))
            a = strip(arg)
            if a[0] == "agg" and a[1] == "array" and len(a[2]) == 1 and strip(a[2][0])[0] == "agg" and strip(a[2][0])[1].endswith("Option::None"):
                init_ok = True
    if init_ok:
        chk.ok("R11.1", "confirmed_replicas starts as [None] (the coordinator itself)", rb.where())
    else:
        chk.fail("R11.1", TX + "run", "initial-count", "confirmed_replicas is not initialised with exactly one entry for the coordinator", rb)

    # ---------------- R11.2 / R11.3
    n_ok_reply = 0
    n_retry = 0
    for b in prog.family(SPAWN):
        chk.analysed(b.path)
        e2 = Ev(prog, b)
        for bi, t in calls(b, RETRY):
            n_retry += 1
            cnt = e2.operand(t["args"][4], (bi, "T"))
            if has_call(cnt, lambda n: n.endswith("::len") and "ArrayVec" in n):
                chk.ok("R11.3", "confirmation count = confirmed_replicas.len()", b.where(t["line"]))
            else:
                chk.fail("R11.3", SPAWN, "count-source", "the confirmation count written to disk is not confirmed_replicas.len(): %s" % show(cnt)[:100], b, t["line"])
        for bi, t in calls(b, "ReplySender::<R>::send", suffix=True):
            term = e2.operand(t["args"][1], (bi, "T"))
            st = strip(term)
            if not (st[0] == "agg" and st[1].endswith("Result::Ok")):
                continue
            n_ok_reply += 1
            hits = variant_edge_dominates(b, e2, bi, lambda term: has_call(term, lambda n: n.startswith(RETRY)), "std::result::Result<(), ", "0")
            if hits:
                chk.ok("R11.2", "Ok reply dominated by the Ok arm of set_confirmations_with_retry", b.where(t["line"]))
            else:
                chk.fail("R11.2", SPAWN, "ack-before-confirm", "the client is answered Ok without the coordinator's confirmation count having been written successfully", b, t["line"])
    chk.floor("R11.2", n_ok_reply, 1)
    chk.floor("R11.3", n_retry, 1)

    # ---------------- R11.4
    sb = prog.body(RETRY + "::{closure#0}")
    chk.analysed(sb.path)
    sev = Ev(prog, sb)
    soks = ok_return_blocks(sb)
    if not soks:
        raise Inconclusive("set_confirmations_with_retry: no Ok return")
    for ob, s in soks:
        hits = variant_edge_dominates(sb, sev, ob, lambda term: has_call(term, lambda n: "set_confirmations" in n and "with_retry" not in n), "std::result::Result<(), ", "0")
        if hits:
            chk.ok("R11.4", "Ok only on the Ok arm of Database::set_confirmations", sb.where(s["line"]))
        else:
            chk.fail("R11.4", RETRY, "ok-without-write", "set_confirmations_with_retry can return Ok although no attempt to write the confirmation count succeeded "
                     "(e.g. after the retries are exhausted): the write is acknowledged with a confirmation count below quorum on disk", sb, s["line"])

    # ---------------- R11.5: every member of the counted quorum has appended
    chk.rule("R11.5", "COUNTED MEANS APPENDED: (a) every Ok return of transaction::run lies behind the success edge of the coordinator's own `database.append_events(..).await?` - "
                      "the `None` entry the count starts with stands for a write the coordinator holds; (b) the replica's answer to ReplicateWrite, the value "
                      "PartitionReplicatorActor::write_transaction returns, is the (error-mapped) result of its own Database::append_events and never an Ok built elsewhere")
    n5 = 0
    for ob, s in oks:
        hits = variant_edge_dominates(rb, ev, ob, lambda term: has_call(term, lambda n: n.endswith("Database::append_events")), "std::ops::ControlFlow<", "0")
        n5 += 1
        if hits:
            chk.ok("R11.5", "Ok return behind the success edge of the coordinator's own append", rb.where(s["line"]))
        else:
            chk.fail("R11.5", TX + "run", "coordinator-counted-without-append", "transaction::run can return Ok on a path that does not pass the success edge of the coordinator's own "
                     "append_events: the quorum count includes the coordinator although it may not hold the write", rb, s["line"])
    WT = "sierradb_cluster::write::replicate::PartitionReplicatorActor::write_transaction::{closure#0}"
    wb = prog.body(WT)
    chk.analysed(wb.path)
    wev = Ev(prog, wb)
    rets = [(i, j, s_) for i, j, s_ in wb.assigns() if s_["lhs"]["l"] == 0 and not s_["lhs"]["p"]]
    if not rets:
        raise Inconclusive("write_transaction: no assignment to the return place")
    for i, j, s_ in rets:
        term = resolve_upvars(prog, wev._rvalue(s_["rv"], (i, j), 0), wb)
        n5 += 1
        from_db = has_call(term, lambda n: n.endswith("Database::append_events"))
        made_ok = any(isinstance(x, tuple) and x and x[0] == "agg" and str(x[1]).endswith("Result::Ok") for x in walk(term))
        if from_db and not made_ok:
            chk.ok("R11.5", "the replica answers with the result of its own append_events", wb.where(s_["line"]))
        else:
            chk.fail("R11.5", WT.rsplit("::", 1)[0], "replica-ack-without-append", "write_transaction can answer with a value that is not the result of the replica's own "
                     "Database::append_events (%s): the coordinator counts an acknowledgement from a replica that does not hold the write" % show(term)[:80], wb, s_["line"])
    chk.floor("R11.5", n5, 3)
    return {}


def count_only_acks(chk, prog, rb, ev, rule):
    """every push to confirmed_replicas in transaction::run happens on the Ok arm of that replica's reply (shared with C10 R10.5)"""
    pushes = [(bi, t) for bi, t in rb.calls() if (rb.callee_decl(t) or "").endswith("ArrayVec::<T, CAP>::push")]
    n_push = 0
    for bi, t in pushes:
        p = op_place(t["args"][0])
        recv = ev.operand(t["args"][0], (bi, "T"))
        if "Option<kameo::actor::RemoteActorRef" not in rb.local_ty(p["l"]) and "RemoteActorRef" not in show(recv) and "RemoteActorRef" not in rb.local_ty(p["l"]):
            continue
        n_push += 1
        hits = variant_edge_dominates(rb, ev, bi, lambda term: True, "std::result::Result<sierradb::writer_thread_pool::AppendResult", "0")
        if hits:
            chk.ok(rule, "a replica is counted only on the Ok arm of its reply", rb.where(t["line"]))
        else:
            chk.fail(rule, TX + "run", "count-on-error", "a replica is added to confirmed_replicas outside the Ok arm of its reply: failed, stale or missing replicas count towards the quorum "
                     "(a StaleWrite reply only says the replica holds *something* at that sequence - possibly another coordinator's transaction)", rb, t["line"])
    chk.floor(rule + "-push", n_push, 1)
