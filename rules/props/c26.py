"""C26 - the write circuit breaker is panic-free and bounds half-open probes (R26.1-R26.4)."""
from ..facts import Program, Inconclusive, op_place
from ..flow import Ev, walk, show, strip
from ..gate import comparisons, switch_on, edge_dominates, SWAP
from ..util import calls, discr_switches
from .. import panic
from .c24 import report_audit

CB = "sierradb_cluster::circuit_breaker::WriteCircuitBreaker::"
ALLOW = {
    CB + "record_failure": {"overflow:Overflow(Add)": "failure_count is bounded by failure_threshold plus the number of concurrent callers: it stops growing once the breaker opens and is reset when it closes"},
    CB + "record_success": {"overflow:Overflow(Add)": "half_open_success_count is bounded by half_open_success_threshold plus concurrent callers and reset on every transition out of half-open"},
}
ATOMIC_WRITES = ("store", "swap", "compare_exchange", "compare_exchange_weak", "fetch_add", "fetch_sub")


def has_field(term, name):
    return any(isinstance(x, tuple) and x and x[0] == "field" and x[2] == name for x in walk(term))


def atomic_ops(prog, body, ev):
    out = []
    for bi, t in body.calls():
        c = body.callee_decl(t) or ""
        if "std::sync::atomic::Atomic" in c and t["args"]:
            recv = ev.operand(t["args"][0], (bi, "T"))
            fld = [x[2] for x in walk(recv) if isinstance(x, tuple) and x and x[0] == "field"]
            out.append((bi, t, c.rsplit("::", 1)[-1], fld[0] if fld else "?"))
    return out


def run(chk, facts_dir, tier):
    prog = Program(facts_dir, crates=["sierradb_cluster-lib"])
    chk.rule("R26.1", "PANIC-AUDIT of every WriteCircuitBreaker method: values read from the clock and from atomics are unordered, so their differences need a saturating form "
                      "or a dominating guard; Duration subtraction needs a dominating `>=`")
    chk.rule("R26.2", "NO RESET ON A LOST RACE: a compare_exchange whose result is discarded is not followed by stores to the episode's counters; counters are reset before the "
                      "state store that starts a new episode, never after it")
    chk.rule("R26.3", "EVERY PROBE IS COUNTED: every path of should_allow_request that can return true while the breaker is (or becomes) half-open passes a fetch_add on "
                      "half_open_call_count whose result is compared `< half_open_max_calls`")
    chk.rule("R26.4", "Open is stored only by transition_to_open, which is reached from Closed only under failures >= failure_threshold, or from HalfOpen")
    chk.not_decided += ["the interleaving space; R26.2/R26.3 are the races the property names, expressed as structure"]
    n = 0
    for p in sorted(prog.bodies):
        if p.startswith(CB) or p == "sierradb_cluster::circuit_breaker::current_timestamp":
            b = prog.bodies[p]
            if "closure" in p:
                continue
            chk.analysed(p)
            n += report_audit(chk, "R26.1", prog, b, ALLOW.get(p, {}), include_casts=False)
    chk.floor("R26.1", n, 5)
    # timestamps: now - last_failure must be saturating (no plain Sub on two loads)
    for fn in ("should_allow_request", "estimated_recovery_time"):
        b = prog.body(CB + fn)
        ev = Ev(prog, b)
        subs = [(bi, t) for bi, t in b.calls() if (b.callee_decl(t) or "").endswith("::saturating_sub") or (b.callee_decl(t) or "").endswith("::checked_sub") or (b.callee_decl(t) or "").endswith("::wrapping_sub")]
        ts = [t for bi, t in subs if any(isinstance(x, tuple) and x and x[0] == "call" and x[1].endswith("current_timestamp") for x in walk(ev.operand(t["args"][0], (bi, "T"))))]
        if ts:
            chk.ok("R26.1", "%s: elapsed time computed with %s" % (fn, (b.callee_decl(ts[0]) or "").rsplit("::", 1)[-1]), b.where(ts[0]["line"]))
        else:
            # a plain subtraction would have been reported by the audit as Overflow(Sub); nothing to add
            pass

    # ---------------- R26.2
    for fn in ("transition_to_half_open", "transition_to_open", "transition_to_closed"):
        b = prog.body(CB + fn)
        chk.analysed(b.path)
        ev = Ev(prog, b)
        ops = atomic_ops(prog, b, ev)
        state_ops = [(bi, t, k, f) for (bi, t, k, f) in ops if f == "state" and k in ATOMIC_WRITES]
        counter_stores = [(bi, t, k, f) for (bi, t, k, f) in ops if f != "state" and k in ATOMIC_WRITES]
        if not state_ops:
            chk.fail("R26.2", b.path, "no-state-transition", "%s does not change the state" % fn, b)
            continue
        for (sbi, st, sk, sf) in state_ops:
            if sk.startswith("compare_exchange"):
                # discarded result? then no counter stores may follow
                used = _result_used(b, st)
                after = [c for c in counter_stores if c[0] in b.reach_after([sbi])]
                if after and not used:
                    chk.fail("R26.2", b.path, "reset-after-lost-cas", "the result of the state compare_exchange is discarded and %s is written afterwards: a thread that loses the race "
                             "wipes the probes already counted for the winner's episode, so more than half_open_max_calls probes are admitted" % after[0][3], b, after[0][1]["line"])
                elif after and used:
                    # stores must be on the success edge only
                    chk.ok("R26.2", "%s: counters written after a checked compare_exchange" % fn, b.where(st["line"]))
                else:
                    chk.ok("R26.2", "%s: compare_exchange only; counters untouched" % fn, b.where(st["line"]))
            else:
                late = [c for c in counter_stores if c[0] in b.reach_after([sbi])]
                if late:
                    chk.fail("R26.2", b.path, "reset-after-publish", "%s is reset after the new state was published: a reset that lands after a concurrent transition to half-open "
                             "forgets probes already admitted" % late[0][3], b, late[0][1]["line"])
                else:
                    chk.ok("R26.2", "%s: counters reset before the state is published" % fn, b.where(st["line"]))

    # ---------------- R26.3
    sb = prog.body(CB + "should_allow_request")
    chk.analysed(sb.path)
    ev = Ev(prog, sb)
    # helpers: private methods of the breaker that should_allow_request calls and that touch the probe counter
    helpers = {}
    for bi, t in sb.calls():
        c = sb.callee(t) or ""
        if c.startswith(CB) and c in prog.bodies and not c.endswith("transition_to_half_open") and not c.endswith("current_state"):
            hb_ = prog.bodies[c]
            hev = Ev(prog, hb_)
            if any(k == "fetch_add" and f == "half_open_call_count" for (_, _, k, f) in atomic_ops(prog, hb_, hev)):
                helpers[c] = hb_
    scope = [sb] + list(helpers.values())
    # (a) every comparison with half_open_max_calls is made on the fetch_add's own result, with `<`
    n_cmp = 0
    ok3 = True
    for b in scope:
        chk.analysed(b.path)
        e2 = Ev(prog, b)
        for c in comparisons(prog, b, e2):
            a_, b2, op = c["a"], c["b"], c["op"]
            if has_field(b2, "half_open_max_calls") and not has_field(a_, "half_open_max_calls"):
                cnt = a_
            elif has_field(a_, "half_open_max_calls") and not has_field(b2, "half_open_max_calls"):
                cnt, op = b2, SWAP[op]
            else:
                continue
            n_cmp += 1
            from_add = any(isinstance(x, tuple) and x and x[0] == "call" and x[1].endswith("::fetch_add") and has_field(x, "half_open_call_count") for x in walk(cnt))
            from_load = any(isinstance(x, tuple) and x and x[0] == "call" and x[1].endswith("::load") and has_field(x, "half_open_call_count") for x in walk(cnt))
            if from_add and op == "Lt":
                chk.ok("R26.3", "probe admitted iff the fetch_add's previous value < half_open_max_calls", b.where(c["line"]))
            elif from_load and not from_add:
                ok3 = False
                chk.fail("R26.3", b.path, "check-then-act", "the probe budget is tested on a separate load of half_open_call_count and incremented afterwards: two threads can both pass the "
                         "test before either increments, so more than half_open_max_calls probes are admitted in one half-open episode", b, c["line"])
            else:
                ok3 = False
                chk.fail("R26.3", b.path, "probe-bound", "probes are admitted under `count %s max` (count = %s) instead of `fetch_add(1) < max`" % (op, show(cnt)[:50]), b, c["line"])
    # (b) every path from transition_to_half_open (and the HalfOpen arm) to a return passes a counting site
    probes = [bi for (bi, t, k, f) in atomic_ops(prog, sb, ev) if k == "fetch_add" and f == "half_open_call_count"]
    probes += [bi for bi, t in sb.calls() if (sb.callee(t) or "") in helpers]
    half = calls(sb, CB + "transition_to_half_open")
    rets = sb.return_blocks()
    for hb, ht in half:
        r = sb.reach_after([hb], avoid=frozenset(probes))
        if any(x in r for x in rets):
            ok3 = False
            chk.fail("R26.3", sb.path, "uncounted-transition-probe", "the request that moves the breaker from open to half-open is admitted without being counted: "
                     "half_open_max_calls + 1 probes are admitted per episode", sb, ht["line"])
    if len(probes) >= 2 and n_cmp >= 1 and ok3:
        chk.ok("R26.3", "both admission sites (transition and half-open arm) count the probe (%d counting sites, %d bound checks)" % (len(probes), n_cmp), sb.where())
    elif ok3:
        chk.fail("R26.3", sb.path, "probe-sites", "expected the probe to be counted both when the breaker turns half-open and while it is half-open (counting sites: %d, bound checks: %d)" % (len(probes), n_cmp), sb)

    # ---------------- R26.4
    openers = prog.callers().get(CB + "transition_to_open", [])
    for b, bi in openers:
        r = b.root or b.path
        if r != CB + "record_failure":
            chk.fail("R26.4", r, "opened-elsewhere", "the breaker is opened outside record_failure", b, b.term(bi)["line"])
    rf = prog.body(CB + "record_failure")
    rev = Ev(prog, rf)
    tos = calls(rf, CB + "transition_to_open")
    thr_ok = 0
    for c in comparisons(prog, rf, rev):
        if has_field(c["b"], "failure_threshold") or has_field(c["a"], "failure_threshold"):
            op = c["op"] if has_field(c["b"], "failure_threshold") else SWAP[c["op"]]
            sw = switch_on(rf, c["sw_block"], c["lhs"]["l"])
            if sw and op == "Ge" and any(edge_dominates(rf, c["sw_block"], sw[0], t[0]) for t in tos):
                thr_ok += 1
    flag_form = False
    if len(tos) == 1 and thr_ok == 0:
        # `let should_open = match state { Closed => failures >= threshold, HalfOpen => true, Open => false }; if should_open { open }`
        thr_locals = set()
        for c in comparisons(prog, rf, rev):
            if has_field(c["b"], "failure_threshold") or has_field(c["a"], "failure_threshold"):
                op = c["op"] if has_field(c["b"], "failure_threshold") else SWAP[c["op"]]
                if op == "Ge" and not c["lhs"]["p"]:
                    thr_locals.add(c["lhs"]["l"])
        for L, defs in rf.defs.items():
            ds = [d for d in defs if not d[2]["p"]]
            if len(ds) < 2 or rf.local_ty(L).strip() != "bool":
                continue
            kinds = []
            for (dbi, dsi, lhs, rv) in ds:
                if rv.get("k") == "use" and "c" in rv["op"]:
                    kinds.append("true" if "true" in str(rv["op"]["c"]) else ("false" if "false" in str(rv["op"]["c"]) else "?"))
                elif rv.get("k") == "use" and op_place(rv["op"]) is not None and op_place(rv["op"])["l"] in thr_locals:
                    kinds.append("thr")
                elif rv.get("k") == "bin" and L in thr_locals:
                    kinds.append("thr")
                else:
                    kinds.append("?")
            # an unconditional `true` may only come from an arm other than the one that holds the threshold test (the Closed arm)
            if "thr" in kinds and "?" not in kinds:
                thr_blocks = [d[0] for d, k_ in zip(ds, kinds) if k_ == "thr"]
                for (dbi, dsi, lhs, rv), k_ in zip(ds, kinds):
                    if k_ != "true":
                        continue
                    ok_arm = False
                    for sb3, place, targets, otherwise in discr_switches(rf):
                        if "CircuitState" not in rf.local_ty(place["l"]):
                            continue
                        for v, tgt in list(targets.items()) + [("otherwise", otherwise)]:
                            if tgt is not None and edge_dominates(rf, sb3, tgt, dbi) and not any(edge_dominates(rf, sb3, tgt, tb) for tb in thr_blocks):
                                ok_arm = True
                    if not ok_arm:
                        kinds[kinds.index(k_)] = "?"
            if "thr" in kinds and "?" not in kinds:
                for sb2, blk in enumerate(rf.blocks):
                    if blk["t"]["k"] == "switch":
                        sw = switch_on(rf, sb2, L)
                        if sw and edge_dominates(rf, sb2, sw[0], tos[0][0]):
                            flag_form = True
    if (thr_ok >= 1 and len(tos) == 2) or flag_form:
        chk.ok("R26.4", "record_failure opens under failures >= failure_threshold (Closed) or unconditionally from HalfOpen", rf.where())
    else:
        chk.fail("R26.4", rf.path, "open-condition", "the breaker no longer opens exactly on `failures >= failure_threshold` in Closed or on any failure in HalfOpen (threshold guards: %d, open sites: %d)" % (thr_ok, len(tos)), rf)
    # only transition_* write `state`
    for p, b in prog.bodies.items():
        if not p.startswith(CB) or p.split("::")[-1].startswith("transition_to_") or p.endswith("::new"):
            continue
        e2 = Ev(prog, b)
        for (bi, t, k, f) in atomic_ops(prog, b, e2):
            if f == "state" and k in ATOMIC_WRITES:
                chk.fail("R26.4", p, "state-writer", "the state is written outside the transition_to_* functions", b, t["line"])
    # ---------------- R26.5 closing the circuit starts a fresh failure count
    chk.rule("R26.5", "A CLOSED CIRCUIT STARTS FROM ZERO: every function that stores Closed into `state` also stores 0 into failure_count (before the state store); otherwise the count "
                      "that opened the circuit survives the recovery and the first failure after closing re-opens it, far below failure_threshold consecutive failures")
    n5 = 0
    for p, b in sorted(prog.bodies.items()):
        if not p.startswith(CB) or "closure" in p:
            continue
        ev = Ev(prog, b)
        ops = atomic_ops(prog, b, ev)
        closes = []
        for (bi, t, k, f) in ops:
            if f == "state" and k in ("store", "swap", "compare_exchange", "compare_exchange_weak"):
                val = ev.operand(t["args"][-2] if k.startswith("compare_exchange") else t["args"][1], (bi, "T"))
                if "Closed" in show(val):
                    closes.append((bi, t))
        if not closes:
            continue
        n5 += 1
        zeroed = [(bi, t) for (bi, t, k, f) in ops if f == "failure_count" and k == "store" and strip(ev.operand(t["args"][1], (bi, "T")))[0] == "const"
                  and strip(ev.operand(t["args"][1], (bi, "T")))[2] == 0]
        for cbi, ct in closes:
            if any(b.dominates(zb, cbi) for zb, _ in zeroed):
                chk.ok("R26.5", "%s: failure_count := 0 before state := Closed" % p.rsplit("::", 1)[-1], b.where(ct["line"]))
            else:
                chk.fail("R26.5", p, "closed-without-reset", "the circuit is closed without resetting failure_count: the failures that opened it still count, so a single failure "
                         "after recovery opens the circuit again", b, ct["line"])
    chk.floor("R26.5", n5, 1)
    return {}


def _result_used(body, call_t):
    """is the call's destination read anywhere (other than being dropped)?"""
    l = call_t["dest"]["l"]
    for bi, blk in enumerate(body.blocks):
        for s in blk["s"]:
            if s["k"] == "assign":
                rv = s["rv"]
                for o in [rv.get("op"), rv.get("a"), rv.get("b")] + list(rv.get("ops", [])):
                    p = op_place(o) if isinstance(o, dict) else None
                    if p and p["l"] == l:
                        return True
                if rv.get("place", {}).get("l") == l and rv["k"] in ("discr",):
                    return True
        t = blk["t"]
        if t["k"] == "switch":
            p = op_place(t["op"])
            if p and p["l"] == l:
                return True
        if t["k"] == "call":
            for a in t["args"]:
                p = op_place(a)
                if p and p["l"] == l:
                    return True
    return False
