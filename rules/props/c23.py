"""C23 - identifiers embed and preserve their partition routing (bit provenance, level: proof)."""
from ..facts import Program, Inconclusive, op_place
from ..flow import Ev, walk, resolve_upvars, show, strip
from ..util import calls
from ..bitprov import Interp, inputs, T
from ..gate import Classifier

ID = "sierradb::id::"
HASH = ID + "uuid_to_partition_hash"


def fmt_bits(bv, lo, hi):
    return [bv[i] for i in range(lo, hi + 1)]


def run(chk, facts_dir, tier):
    prog = Program(facts_dir, crates=["sierradb-lib", "sierradb_server-lib", "sierradb_cluster-lib", "sierradb_client-lib"])
    chk.rule("B1", "uuid_v7_with_partition_hash: bits 46..61 of the result are exactly partition_hash[0..15], no other summand has support there; variant bits 63..62 = 10, version bits 67..64 = 0111")
    chk.rule("B2", "uuid_to_partition_hash returns exactly bits 46..61 of its argument")
    chk.rule("B3", "set_uuid_flag changes bit 63 only (to the flag), for both flag values; every other bit of the result is the same bit of the argument")
    chk.rule("B4", "get_uuid_flag returns bit 63 of its argument")
    chk.rule("B5", "validate_event_id compares uuid_to_partition_hash(event_id) (B2) with its partition_hash argument, bit for bit")
    chk.rule("R23.6", "ROUTING SIBLINGS: every partition id computed from a key is uuid_to_partition_hash(key) % <partition count>")
    chk.rule("R23.7", "EVERY EVENT ID IS VALIDATED: Transaction::new rejects the transaction if validate_event_id fails for any event (try_fold / all / loop - not `any`)")
    chk.not_decided += ["uniqueness / monotonicity of generated ids (random and time bits are opaque inputs)"]
    it = Interp(prog)
    ob = 0
    ok = 0

    def oblige(rule, cond, okmsg, fn, inst, failmsg, body):
        nonlocal ob, ok
        ob += 1
        if cond:
            ok += 1
            chk.ok(rule, okmsg, body.where())
        else:
            chk.fail(rule, fn, inst, failmsg, body)

    # B1
    gb = prog.body(ID + "uuid_v7_with_partition_hash")
    chk.analysed(gb.path)
    res = it.run(gb.path, [inputs("partition_hash", 16)])
    if not res:
        raise Inconclusive("uuid_v7_with_partition_hash: no return path interpreted")
    for cond, rv in res:
        good = rv is not None and len(rv) == 128 and all(rv[46 + i] == ("in", "partition_hash", i) for i in range(16))
        oblige("B1", good, "result[46..61] == partition_hash[0..15]", gb.path, "hash-field",
               "the partition hash is not embedded bit for bit at bits 46..61: %s" % (fmt_bits(rv, 44, 63) if rv else None), gb)
        if rv is not None and len(rv) == 128:
            oblige("B1", rv[63] == 1 and rv[62] == 0, "variant bits 63..62 = 10", gb.path, "variant", "variant bits are %s" % rv[62:64], gb)
            oblige("B1", rv[64:68] == [1, 1, 1, 0], "version bits 67..64 = 0111", gb.path, "version", "version bits are %s" % rv[64:68], gb)
            leak = [i for i in range(128) if isinstance(rv[i], tuple) and rv[i][0] == "in" and rv[i][1] == "partition_hash" and not (46 <= i <= 61)]
            oblige("B1", not leak and T not in rv[46:62], "no other field overlaps the hash field", gb.path, "overlap", "hash bits appear at %s / unknown bits in the field" % leak, gb)
    overlaps = [n for n in it.notes if "overlap" in n]
    oblige("B1", not overlaps, "all OR-ed fields have disjoint support", gb.path, "or-overlap", "; ".join(overlaps[:3]), gb)

    # B2
    hb = prog.body(HASH)
    chk.analysed(hb.path)
    res = it.run(HASH, [inputs("uuid", 128)])
    for cond, rv in res:
        good = rv is not None and len(rv) == 16 and all(rv[i] == ("in", "uuid", 46 + i) for i in range(16))
        oblige("B2", good, "uuid_to_partition_hash(u)[i] == u[46+i], i in 0..15", HASH, "extract", "extracts %s" % (rv,), hb)

    # B3
    sb = prog.body(ID + "set_uuid_flag")
    chk.analysed(sb.path)
    res = it.run(sb.path, [inputs("uuid", 128), inputs("flag", 1)])
    seen_flags = set()
    for cond, rv in res:
        fl = [c for c in cond if c[0] == ("in", "flag", 0)]
        fv = fl[0][1] if fl else None
        fv = 1 if fv == "other" else fv
        seen_flags.add(fv)
        good = rv is not None and len(rv) == 128 and all(rv[i] == ("in", "uuid", i) for i in range(128) if i != 63) and rv[63] == fv
        oblige("B3", good, "flag=%s: result[63] == %s, every other bit unchanged" % (fv, fv), sb.path, "flag-%s" % fv,
               "with flag=%s the result differs from the argument outside bit 63 or bit 63 is not the flag: changed bits %s" %
               (fv, [i for i in range(128) if rv is None or rv[i] != ("in", "uuid", i)][:8]), sb)
    oblige("B3", seen_flags == {0, 1}, "both flag values covered", sb.path, "flag-paths", "paths seen for flag values %s" % seen_flags, sb)

    # B4
    fb = prog.body(ID + "get_uuid_flag")
    chk.analysed(fb.path)
    res = it.run(fb.path, [inputs("uuid", 128)])
    for cond, rv in res:
        oblige("B4", rv == [("in", "uuid", 63)], "get_uuid_flag(u) == u[63]", fb.path, "flag-read", "returns %s" % (rv,), fb)

    # B5
    vb = prog.body(ID + "validate_event_id")
    chk.analysed(vb.path)
    res = it.run(vb.path, [inputs("event_id", 128), inputs("partition_hash", 16)])
    for cond, rv in res:
        want = [("eq", tuple(("in", "event_id", 46 + i) for i in range(16)), tuple(("in", "partition_hash", i) for i in range(16)))]
        want2 = [("eq", want[0][2], want[0][1])]
        oblige("B5", rv == want or rv == want2, "validate_event_id == (event_id[46..61] == partition_hash)", vb.path, "compare", "computes %s" % (str(rv)[:120],), vb)

    # ---------------- R23.6
    n_rt = 0
    for b in prog.bodies.values():
        if "/tests/" in b.file:
            continue
        ev = None
        for i, j, s in b.assigns():
            rv = s["rv"]
            if rv["k"] == "bin" and rv["o"] in ("Rem", "Div", "BitAnd", "Shr"):
                ev = ev or Ev(prog, b)
                a = resolve_upvars(prog, ev.operand(rv["a"], (i, j)), b)
                if not any(isinstance(x, tuple) and x and x[0] == "call" and x[1] == HASH for x in walk(a)):
                    continue
                sa = strip(a)
                if not (sa[0] == "call" and sa[1] == HASH):
                    continue
                d = show(resolve_upvars(prog, ev.operand(rv["b"], (i, j)), b)).lower()
                n_rt += 1
                if rv["o"] == "Rem" and ("partition" in d or "num_buckets" in d or "bucket" in d):
                    chk.ok("R23.6", "%s: hash(key) %% %s" % ((b.root or b.path).split("::")[-1][:30], d[-30:]), b.where(s["line"]))
                else:
                    chk.fail("R23.6", b.root or b.path, "routing-kernel", "a partition is derived from a key's hash by `%s %s` instead of `%% partition count`" % (rv["o"], d[:40]), b, s["line"])
    chk.floor("R23.6", n_rt, 5)

    # ---------------- R23.7
    tn = "sierradb::database::Transaction::new"
    fam = prog.family(tn)
    vcl = [b for b in fam if calls(b, ID + "validate_event_id")]
    if not vcl:
        chk.fail("R23.7", tn, "no-validation", "Transaction::new no longer validates event ids against the partition key", fam[0])
    for cb in vcl:
        chk.analysed(cb.path)
        if cb.kind != "Closure":
            chk.ok("R23.7", "event ids validated in a loop of Transaction::new", cb.where())
            continue
        # which combinator receives this closure?
        comb = None
        for b in fam:
            for bi, t in b.calls():
                for a in t["args"]:
                    p = op_place(a)
                    if p is None:
                        continue
                    for d in b.defs.get(p["l"], []):
                        if d[3]["k"] == "agg" and d[3]["ak"].endswith(":" + cb.path):
                            comb = (b.callee_decl(t) or "").rsplit("::", 1)[-1]
        if comb in ("try_fold", "all", "try_for_each"):
            chk.ok("R23.7", "every event id must validate (%s)" % comb, cb.where())
        else:
            chk.fail("R23.7", tn, "validation-quantifier", "event ids are validated with `%s`: a transaction is accepted as soon as one event id carries the partition key's hash; "
                     "events with a foreign hash are stored under this key but looked up (by id) in another partition" % comb, cb)
    return {"level": "proof", "checker_cmd": "./sv check C23 --tier quick",
            "trusted_base": ["rustc nightly front end (mir_built)", "driver/ fact extractor", "rules/bitprov.py transfer functions (and/or/shift by constant, zero-extending casts, "
                             "constant folding, x != 0 over one live bit)", "model: Uuid <-> [u8;16] <-> u128 conversions are big-endian identities"],
            "extra_cov": {"obligations": ob + len([o for o in chk.obligations if o[0].startswith("R23")]), "discharged": ok + len([o for o in chk.obligations if o[0].startswith("R23") and o[2]])}}
