"""C06 - a crash during segment rollover neither loses data nor blocks reopening (R6.1-R6.2)."""
from ..facts import Program, Inconclusive, op_place
from ..flow import Ev, walk, show, strip
from ..util import calls

DBOPEN = "sierradb::database::DatabaseBuilder::open"
KINDS = {
    "event": ("sierradb::bucket::event_index::ClosedEventIndex::open", "sierradb::bucket::event_index::OpenEventIndex"),
    "partition": ("sierradb::bucket::partition_index::closed::ClosedPartitionIndex::open", "sierradb::bucket::partition_index::open::OpenPartitionIndex"),
    "stream": ("sierradb::bucket::stream_index::closed::ClosedStreamIndex::open", "sierradb::bucket::stream_index::open::OpenStreamIndex"),
}
SCANNERS = ("::hydrate", "BucketSegmentReader::iter", "BucketSegmentReader::iter_from", "BucketSegmentIter::<'_>::next_record",
            "BucketSegmentIter::<'_>::next_committed_events", "BucketSegmentReader::read_committed_events")


def transitive_callees(prog, roots, limit=4000):
    seen = set()
    work = list(roots)
    while work and len(seen) < limit:
        p = work.pop()
        if p in seen:
            continue
        seen.add(p)
        for b in ([prog.bodies[p]] if p in prog.bodies else []) + prog.children(p):
            for bi, t in b.calls():
                for c in (t["f"].get("res"), t["f"].get("fn")):
                    if c and c not in seen and c.startswith("sierradb::"):
                        work.append(c)
    return seen


def run(chk, facts_dir, tier):
    prog = Program(facts_dir, crates=["sierradb-lib"])
    chk.rule("R6.1", "REBUILD CAPABILITY: the code that loads a sealed segment's three index files (Closed*Index::open as called from DatabaseBuilder::open, "
                     "and everything those constructors call) can reach a scan of the segment file (hydrate / segment iterator) for each index kind; "
                     "with an empty or truncated index file the segment is the only complete source of its events")
    chk.rule("R6.2", "BACKGROUND FLUSH: in Open*Index::close the spawned closure writes the file only through flush_inner and replaces the in-memory index "
                     "(ArcSwap::store) only on flush_inner's Ok arm, so readers keep the complete in-memory map until the file is complete")
    chk.not_decided += ["which prefixes of an index file are recognised as incomplete (a value question about the file format)"]
    ob = prog.body(DBOPEN)
    fam = prog.family(DBOPEN)
    for b in fam:
        chk.analysed(b.path)
    n = 0
    for kind, (opener, openidx) in KINDS.items():
        sites = [(b, bi, t) for b in fam for bi, t in calls(b, opener)]
        if not sites:
            raise Inconclusive("DatabaseBuilder::open: no call to %s" % opener)
        n += len(sites)
        reach = transitive_callees(prog, [opener])
        reach_open = set()
        for b in fam:
            for bi, t in b.calls():
                c = b.callee(t) or ""
                if c.startswith("sierradb::"):
                    reach_open.add(c)
        can_scan = any(any(r.endswith(s) or s in r for s in SCANNERS) for r in reach | reach_open)
        b, bi, t = sites[0]
        if can_scan:
            chk.ok("R6.1", "%s index loading can rebuild from the segment" % kind, b.where(t["line"]))
        else:
            chk.fail("R6.1", DBOPEN, "no-rebuild:" + kind, "the sealed segment's %s index is only ever read from its file (%d functions reachable from the loader, none scans the segment): "
                     "if the process died before the background flush completed, the file is empty or partial, open fails (or the events cannot be found) although the segment holds them"
                     % (kind, len(reach)), b, t["line"])
    chk.floor("R6.1", n, 3)

    # ---------------- R6.3: a sealed index that cannot be loaded is never silently dropped
    chk.rule("R6.3", "NO SILENT DROP: the Err of Closed*Index::open in DatabaseBuilder::open is propagated (or handled by a rebuild); it is never turned into "
                     "`None` (Result::ok / unwrap_or* / is_ok), which would open the database with the sealed segment's events unfindable")
    DISCARD = ("Result::<T, E>::ok", "Result::<T, E>::unwrap_or_default", "Result::<T, E>::unwrap_or", "Result::<T, E>::unwrap_or_else",
               "Result::<T, E>::is_ok", "Result::<T, E>::is_err", "Result::<T, E>::map_or", "Result::<T, E>::map_or_else", "Result::<T, E>::into_iter",
               "Result::<T, E>::iter")
    from ..gate import Classifier
    cls = Classifier(prog, lambda t: False, lambda t: False)
    for kind, (opener, openidx) in KINDS.items():
        bad = None
        for b in fam:
            ev = Ev(prog, b)
            for bi, t in b.calls():
                c = b.callee_decl(t) or ""
                if any(c.endswith(d) for d in DISCARD) and t["args"]:
                    term = ev.operand(t["args"][0], (bi, "T"))
                    if cls.deep(term, lambda x: isinstance(x, tuple) and x and x[0] == "call" and x[1] == opener):
                        bad = (b, t)
            # Option::and_then(path, |p| open(p).ok()) : the discard sits inside the closure with the open call
            if calls(b, opener):
                for bi, t in b.calls():
                    c = b.callee_decl(t) or ""
                    if any(c.endswith(d) for d in DISCARD):
                        term = ev.operand(t["args"][0], (bi, "T"))
                        if any(isinstance(x, tuple) and x and x[0] == "call" and x[1] == opener for x in walk(term)):
                            bad = (b, t)
        if bad:
            chk.fail("R6.3", DBOPEN, "index-error-swallowed:" + kind, "a failure to load the sealed segment's %s index is discarded (%s): the database opens, but every event of "
                     "that segment is silently missing from lookups and the next append reuses its sequences" % (kind, (bad[0].callee_decl(bad[1]) or "").split("::")[-1]), bad[0], bad[1]["line"])
        else:
            chk.ok("R6.3", "%s index load errors are not discarded" % kind, ob.where())

    # ---------------- R6.4: sibling agreement of the index files' open modes
    chk.rule("R6.4", "SIBLING: all six Open*Index::{create,open} constructors open the index file readable and writable; the handle is later used for "
                     "positional reads by the Closed*Index")
    n_open = 0
    for kind, (opener, openidx) in KINDS.items():
        for ctor in ("create", "open"):
            b = prog.bodies.get(openidx + "::" + ctor)
            if b is None:
                raise Inconclusive("%s::%s not found" % (openidx, ctor))
            chk.analysed(b.path)
            ev = Ev(prog, b)
            modes = {}
            for bi, t in b.calls():
                c = b.callee_decl(t) or ""
                if c in ("std::fs::OpenOptions::read", "std::fs::OpenOptions::write"):
                    v = strip(ev.operand(t["args"][1], (bi, "T")))
                    modes[c.rsplit("::", 1)[-1]] = v[1] if v[0] == "const" else "?"
            n_open += 1
            if modes.get("read") == "const true" and modes.get("write") == "const true" or (modes.get("read") == "true" and modes.get("write") == "true"):
                chk.ok("R6.4", "%s::%s opens read+write" % (openidx.split("::")[-1], ctor), b.where())
            else:
                chk.fail("R6.4", b.path, "index-file-mode", "the index file is opened with %s while its siblings use read(true).write(true): lookups through the closed index "
                         "fail with EBADF once the in-memory map has been flushed" % modes, b)
    chk.floor("R6.4", n_open, 6)

    # ---------------- R6.2
    for kind, (opener, openidx) in KINDS.items():
        close = openidx + "::close"
        cb = prog.body(close)
        chk.analysed(cb.path)
        cls = [c for c in prog.children(close) if c.kind == "Closure"]
        bg = None
        for c in cls:
            if calls(c, openidx + "::flush_inner"):
                bg = c
        if bg is None:
            # the closure's body may have been extracted into a helper: `pool.spawn(move || Self::flush_in_background(..))`
            for c in cls:
                for bi, t in c.calls():
                    hb = prog.bodies.get(c.callee(t) or c.callee_decl(t) or "")
                    if hb is not None and calls(hb, openidx + "::flush_inner"):
                        bg = hb
        if bg is None:
            chk.fail("R6.2", close, "no-background-flush", "close no longer flushes the index through flush_inner in its background closure", cb)
            continue
        chk.analysed(bg.path)
        fl = calls(bg, openidx + "::flush_inner")
        stores = calls(bg, "ArcSwapAny::<T, S>::store", suffix=True) or calls(bg, "::store", suffix=True)
        writers = [t for bi, t in bg.calls() if any(x in (bg.callee_decl(t) or "") for x in ("write_all", "Write::write", "set_len", "FileExt::write"))]
        ok = bool(fl) and bool(stores) and not writers
        if ok:
            # the store must be on the Ok arm: value term mentions the Ok payload of flush_inner
            ev = Ev(prog, bg)
            sb, st = stores[0]
            val = ev.operand(st["args"][1], (sb, "T"))
            from_ok = any(isinstance(x, tuple) and x and x[0] == "variant" and x[2] == "Ok" for x in walk(val)) and \
                any(isinstance(x, tuple) and x and x[0] == "call" and x[1].endswith("flush_inner") for x in walk(val))
            if from_ok and bg.dominates(fl[0][0], sb):
                chk.ok("R6.2", "%s index: in-memory map replaced only with flush_inner's Ok result" % kind, bg.where(st["line"]))
            else:
                chk.fail("R6.2", close, "store-before-flush", "the in-memory index is replaced by something other than the result of a successful flush: %s" % show(val)[:100], bg, st["line"])
        else:
            chk.fail("R6.2", close, "background-shape", "the background closure of close writes the file directly or does not store the flushed index (flush=%d store=%d direct writers=%d)" % (len(fl), len(stores), len(writers)), bg)
    # ---------------- R6.5: the bloom filter of a stream index covers every key of the index
    chk.rule("R6.5", "BLOOM COVERS INDEX: every function of OpenStreamIndex that adds a key to the in-memory index (BTreeMap entry / insert / extend on `index`) also sets that key in "
                     "the bloom filter (`bloom.set`): the filter is sealed into the closed index at rollover and written to stream.sidx, and ClosedStreamIndex::get_key answers "
                     "'absent' for every stream the filter does not contain")
    OSI = "sierradb::bucket::stream_index::open::OpenStreamIndex::"
    n5 = 0
    for p, b in sorted(prog.bodies.items()):
        root = b.root or b.path
        if not root.startswith(OSI):
            continue
        ev = None
        adds, sets = [], []
        for bi, t in b.calls():
            c = b.callee_decl(t) or ""
            last = c.rsplit("::", 1)[-1]
            if "BTreeMap" in c and last in ("entry", "insert", "extend", "append", "try_insert") and t["args"]:
                ev = ev or Ev(prog, b)
                recv = ev.operand(t["args"][0], (bi, "T"))
                if any(isinstance(x, tuple) and x and x[0] == "field" and x[2] == "index" and "OpenStreamIndex" in str(x[3]) for x in walk(recv)):
                    adds.append(t)
            if "Bloom" in c and last in ("set", "check_and_set"):
                sets.append(t)
        if not adds:
            continue
        n5 += 1
        chk.analysed(p)
        # the family (function + its closures) must set the bloom filter
        fam_sets = sets or [t for fb_ in prog.family(root) for _, t in fb_.calls() if "Bloom" in (fb_.callee_decl(t) or "") and (fb_.callee_decl(t) or "").rsplit("::", 1)[-1] in ("set", "check_and_set")]
        if fam_sets:
            chk.ok("R6.5", "%s adds keys to the index and to the bloom filter" % root.rsplit("::", 1)[-1], b.where(adds[0]["line"]))
        else:
            chk.fail("R6.5", root, "index-without-bloom", "keys are added to the stream index without being added to its bloom filter: once the segment is sealed, lookups of these streams "
                     "are answered 'absent' by the filter although the index files are complete", b, adds[0]["line"])
    chk.floor("R6.5", n5, 1)

    # ---------------- R6.6: the names the writer gives the segment's files are the names the reopen scan recognises
    chk.rule("R6.6", "NAME TABLE AGREEMENT: every file name SegmentKind::file_name can return (the name get_path gives the writers and the index flush) is a name the "
                     "directory scan of DatabaseBuilder::open recognises - compared there as a string constant (directly, through SegmentKind::parse_path, or by extension) "
                     "or taken from SegmentKind::file_name itself; an unrecognised name is skipped by the scan, so the sealed segment is registered without that index and "
                     "its events are silently missing from that kind of lookup")
    FN, PP = "sierradb::bucket::SegmentKind::file_name", "sierradb::bucket::SegmentKind::parse_path"
    fb = prog.body(FN)
    chk.analysed(fb.path)

    def str_consts(op):
        c = (prog.sconsts.get(op.get("named") or "") or op.get("c")) if isinstance(op, dict) else None
        if isinstance(c, str) and c.startswith("const "):
            c = c[6:]
        return c[1:-1] if isinstance(c, str) and len(c) >= 2 and c[0] == '"' and c[-1] == '"' and op.get("ty") == "&str" else None
    written = {}
    for bi, bl in enumerate(fb.blocks):
        for st in bl["s"]:
            rv = st.get("rv") or {}
            if st.get("k") == "assign" and rv.get("k") == "use":
                v = str_consts(rv["op"])
                if v is not None:
                    written[v] = st["line"]

    def compared(bodies):
        out = set()
        for b in bodies:
            for bi, t in b.calls():
                c = (b.callee_decl(t) or "") + " " + str(t["f"].get("c"))
                if "PartialEq" in c or c.rsplit("::", 1)[-1].split(" ")[0] in ("eq", "ne", "ends_with", "starts_with", "eq_ignore_ascii_case"):
                    for a in t["args"]:
                        v = str_consts(a)
                        if v is not None:
                            out.add(v)
        return out
    recognised = compared(fam)
    uses = {c for b in fam for bi, t in b.calls() for c in [b.callee(t) or b.callee_decl(t) or ""] if c in (FN, PP)}
    if PP in uses:
        recognised |= compared(prog.family(PP))
    by_table = FN in uses
    if not recognised and not by_table:
        raise Inconclusive("DatabaseBuilder::open: the directory scan compares no file-name constants and does not use SegmentKind::file_name / parse_path")
    for w, line in sorted(written.items()):
        ok6 = by_table or any(w == c or w.endswith("." + c.lstrip(".")) for c in recognised)
        if ok6:
            chk.ok("R6.6", "`%s` is recognised by the reopen scan" % w, fb.where(line))
        else:
            chk.fail("R6.6", FN, "name-not-recognised:" + w.rsplit(".", 1)[-1], "SegmentKind::file_name returns `%s`, which the directory scan of DatabaseBuilder::open does not recognise (it knows %s): "
                     "after a restart the file is skipped and the sealed segment is registered without it" % (w, sorted(recognised)), fb, line)
    chk.floor("R6.6", len(written), 4)
    return {}
