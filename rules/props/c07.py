"""C07 - cluster reads only expose the quorum-confirmed prefix (DESIGN 5, R7.1-R7.3)."""
from ..facts import Program, Inconclusive, op_place
from ..flow import Ev, walk, resolve_upvars, show, strip
from ..gate import Classifier, find_gates, switch_on, edge_dominates, linear, y_offset, implied_true_edges
from .. import quorum

WM_GET = "sierradb_cluster::confirmation::AtomicWatermark::get"
CAN_READ = "sierradb_cluster::confirmation::AtomicWatermark::can_read"
IMPL = "sierradb_cluster::read::<impl ClusterActor>::"
MSG = "sierradb_cluster::read::<impl kameo::message::Message<read::%s> for ClusterActor>::handle"


def is_x_leaf(t):
    if not isinstance(t, tuple) or not t:
        return False
    if t[0] == "field" and t[2] == "partition_sequence" and "EventRecord" in t[3]:
        return True
    if t[0] == "call" and (t[1].endswith("::first_partition_sequence") or t[1].endswith("::last_partition_sequence")):
        return True
    return False


def is_y_leaf(t):
    return isinstance(t, tuple) and t and t[0] == "call" and t[1] == WM_GET


def make_cls(prog):
    return Classifier(prog, is_x_leaf, is_y_leaf)


def gated(prog, cls, body, accept_block, ev=None, need=-1):
    """is accept_block dominated by the accepting edge of a gate with X <= Y + m, m <= need?
    returns (ok, [descriptions of gates seen])"""
    seen = []
    ok = False
    for g in find_gates(prog, body, cls, ev):
        sw = switch_on(body, g.block, g.lhs["l"])
        implied = implied_true_edges(body, g.block, g.lhs["l"])
        if sw is None and not implied:
            seen.append("%s (value, L%d)" % (g.describe(), g.line))
            continue
        cands = [(True, e[0], e[1]) for e in implied]
        if sw is not None:
            cands.append((False, g.block, sw[1]))
        for truth, src, dst in cands:
            m = g.bound_on(truth)
            if m is None:
                continue
            dom = edge_dominates(body, src, dst, accept_block)
            seen.append("%s on %s edge gives X <= W%+d%s (L%d)" % (g.describe(), truth, m, " [dominates]" if dom else "", g.line))
            if dom and m <= need:
                ok = True
    # canonical predicate calls
    for bi, t in body.calls():
        if body.callee(t) == CAN_READ and "debug_assert" not in t.get("exp", ""):
            sw = switch_on(body, t["target"], t["dest"]["l"]) if t.get("target") is not None else None
            # the bool may be switched in the target block after a Not
            if sw is None:
                continue
            tr, fa = sw
            ev2 = ev or Ev(prog, body)
            xa = resolve_upvars(prog, ev2.operand(t["args"][1], (bi, "T")), body)
            dom = edge_dominates(body, t["target"], tr, accept_block)
            seen.append("can_read(%s) true edge%s (L%d)" % (show(xa), " [dominates]" if dom else "", t["line"]))
            if dom:
                ok = True
    return ok, seen


def send_sites_with_some(prog, body, ev):
    """ReplySender::send calls whose payload is Ok(Some(..))"""
    out = []
    for bi, t in body.calls():
        c = body.callee(t) or ""
        if "ReplySender" in c and c.endswith("::send"):
            term = ev.operand(t["args"][1], (bi, "T"))
            if any(isinstance(x, tuple) and x and x[0] == "agg" and x[1] == "adt:std::option::Option::Some" for x in walk(term)):
                out.append((bi, t))
    return out


def push_sites(body, elem):
    out = []
    for bi, t in body.calls():
        c = body.callee_decl(t) or ""
        if c == "std::vec::Vec::<T, A>::push":
            p = op_place(t["args"][0])
            ty = body.local_ty(p["l"]) if p else ""
            if elem in ty:
                out.append((bi, t))
    return out


def check_can_read_reference(chk, prog):
    b = prog.body(CAN_READ)
    chk.analysed(b.path)
    ev = Ev(prog, b)
    rets = b.return_blocks()
    ok = False
    for r in rets:
        t = ev.place({"l": 0, "p": []}, (r, "T"))
        t = strip(t)
        if t[0] == "bin" and t[1] == "Lt" and strip(t[2])[0] == "param" and strip(t[2])[1] == 2 and is_y_leaf(strip(t[3])):
            ok = True
        else:
            ok = False
            break
    if ok:
        chk.ok("R7.1", "AtomicWatermark::can_read is `partition_sequence < get()` (canonical gate)", b.where())
    else:
        chk.fail("R7.1", b.path, "canonical", "AtomicWatermark::can_read is no longer `partition_sequence < self.get()`", b)


def check_actor_broadcast(chk, prog, cls, rule):
    """the two live broadcast loops of the confirmation actor only send events below the watermark"""
    n_gates = 0
    for msgname in ("UpdateConfirmationWithBroadcast", "TriggerBroadcast"):
        root = "sierradb_cluster::<confirmation::actor::ConfirmationActor as kameo::message::Message<confirmation::actor::%s>>::handle" % msgname
        n = 0
        for b in prog.family(root):
            chk.analysed(b.path)
            ev = Ev(prog, b)
            for bi, t in b.calls():
                if (b.callee_decl(t) or "") == "tokio::sync::broadcast::Sender::<T>::send":
                    n += 1
                    ok, seen = gated(prog, cls, b, bi, ev)
                    n_gates += len(seen)
                    if ok:
                        chk.ok(rule, "%s: broadcast send gated by watermark" % msgname, b.where(t["line"]))
                    else:
                        chk.fail(rule, root, "broadcast/watermark", "event is broadcast to subscribers without a dominating gate `partition_sequence <= watermark-1`; gates seen: %s" % [x[-70:] for x in seen], b, t["line"])
        if n == 0:
            raise Inconclusive("%s: no broadcast send found" % msgname)
    # broadcast_confirmed_events is fed by `pending_events`, which nothing fills
    _check_dead_pending_events(chk, prog, rule)
    return n_gates


def run(chk, facts_dir, tier):
    prog = Program(facts_dir, crates=["sierradb_cluster-lib"])
    cls = make_cls(prog)
    chk.rule("R7.1", "GATE: every comparison between an event's partition sequence (X) and a value derived from "
                     "AtomicWatermark::get (Y) is normalised to X <= W+m on its accept edge; the accept edge that guards an "
                     "exposure site must have m <= -1 (canonical X < W, reference AtomicWatermark::can_read)")
    chk.rule("R7.2", "GATED: every site that hands an event (or a version/sequence derived from one) to the client in the listed "
                     "read handlers is dominated by an accepted gate; handle_local_read additionally by confirmation_count >= quorum")
    chk.rule("R7.3", "QUORUM: every value compared with a confirmation / replica / not-found count is rf/2+1 and the accept side is >=")
    chk.rule("R7.4", "COVERAGE: every function of sierradb-cluster that reads events from the database is one of the gated "
                     "handlers or is allow-listed with a reason")
    chk.not_decided += ["that the watermark itself equals the longest quorum-confirmed prefix (C08)",
                        "content of the events returned"]
    check_can_read_reference(chk, prog)
    n_gates = 0

    # ---- handle_local_read: reply Ok(Some(event))
    root = IMPL + "handle_local_read"
    fam = prog.family(root)
    n_sites = 0
    for b in fam:
        chk.analysed(b.path)
        ev = Ev(prog, b)
        for bi, t in send_sites_with_some(prog, b, ev):
            n_sites += 1
            ok, seen = gated(prog, cls, b, bi, ev)
            n_gates += len(seen)
            if ok:
                chk.ok("R7.2", "handle_local_read: reply Ok(Some(event)) gated by watermark", b.where(t["line"]))
            else:
                chk.fail("R7.2", root, "reply-some/watermark", "reply Ok(Some(event)) is not dominated by a gate `partition_sequence < watermark`; gates seen: %s" % seen, b, t["line"])
            qok, qseen = quorum.count_gate_dominates(prog, b, bi, count_field="confirmation_count", ev=ev)
            if qok:
                chk.ok("R7.2", "handle_local_read: reply Ok(Some(event)) gated by confirmation_count >= quorum", b.where(t["line"]))
            else:
                chk.fail("R7.2", root, "reply-some/quorum", "reply Ok(Some(event)) is not dominated by `event.confirmation_count >= rf/2+1`; seen: %s" % qseen, b, t["line"])
    if n_sites == 0:
        raise Inconclusive("handle_local_read: no reply Ok(Some(..)) site found")

    # ---- partition / stream scans: events.push(event)
    for name in ("handle_partition_read_locally", "handle_stream_read_locally"):
        root = IMPL + name
        n = 0
        for b in prog.family(root):
            chk.analysed(b.path)
            ev = Ev(prog, b)
            for bi, t in push_sites(b, "EventRecord"):
                n += 1
                ok, seen = gated(prog, cls, b, bi, ev)
                n_gates += len(seen)
                if ok:
                    chk.ok("R7.2", "%s: events.push(event) gated by watermark" % name, b.where(t["line"]))
                else:
                    chk.fail("R7.2", root, "push/watermark",
                             "events.push(event) is not dominated by a gate equivalent to `partition_sequence < watermark`; gates seen: %s" % seen, b, t["line"])
        if n == 0:
            raise Inconclusive("%s: no events.push site found" % name)

    # ---- PartitionSyncRequest: all_commits.push(commit)
    root = "sierradb_cluster::write::replicate::<impl kameo::message::Message<write::replicate::PartitionSyncRequest> for ClusterActor>::handle"
    n = 0
    for b in prog.family(root):
        chk.analysed(b.path)
        ev = Ev(prog, b)
        for bi, t in push_sites(b, "CommittedEvents"):
            n += 1
            ok, seen = gated(prog, cls, b, bi, ev)
            n_gates += len(seen)
            if ok:
                chk.ok("R7.2", "PartitionSyncRequest: all_commits.push(commit) gated by watermark", b.where(t["line"]))
            else:
                chk.fail("R7.2", root, "push/watermark", "catch-up answer pushes a commit that is not dominated by `first_seq < watermark`; gates seen: %s" % seen, b, t["line"])
    if n == 0:
        raise Inconclusive("PartitionSyncRequest handler: no push site found")

    # ---- GetStreamVersion: (seq < watermark).then_some(version)
    root = MSG % "GetStreamVersion"
    n = 0
    for b in prog.family(root):
        chk.analysed(b.path)
        ev = Ev(prog, b)
        gates = {(g.block, g.lhs["l"]): g for g in find_gates(prog, b, cls, ev)}
        for bi, t in b.calls():
            if (b.callee_decl(t) or "").endswith("bool::then_some") or (b.callee_decl(t) or "") == "core::bool::<impl bool>::then_some" or "then_some" in (b.callee_decl(t) or ""):
                val = ev.operand(t["args"][1], (bi, "T"))
                if not any(isinstance(x, tuple) and x and x[0] == "field" and "EventRecord" in x[3] for x in walk(val)):
                    continue
                n += 1
                cond = strip(resolve_upvars(prog, ev.operand(t["args"][0], (bi, "T")), b))
                okc = False
                desc = show(cond)
                if cond[0] == "bin" and cond[1] in ("Lt", "Le", "Gt", "Ge"):
                    from ..gate import Gate, SWAP
                    a, c = cond[2], cond[3]
                    if cls.has_x(a) and cls.has_y(c):
                        g = Gate(b, bi, cond[1], a, c, linear(a)[1], y_offset(cls, c), t["line"])
                    elif cls.has_x(c) and cls.has_y(a):
                        g = Gate(b, bi, SWAP[cond[1]], c, a, linear(c)[1], y_offset(cls, a), t["line"])
                    else:
                        g = None
                    if g is not None:
                        n_gates += 1
                        m = g.bound_on(True)
                        okc = m is not None and m <= -1
                        desc += " => X <= W%+d" % m if m is not None else " => no bound"
                if okc:
                    chk.ok("R7.2", "GetStreamVersion: then_some(version) under %s" % desc, b.where(t["line"]))
                else:
                    chk.fail("R7.2", root, "then_some/watermark", "stream version is revealed under `%s`, which is not `partition_sequence < watermark`" % desc, b, t["line"])
    # other shapes of the same exposure: `.find(|e| gate(e)).map(|e| e.stream_version)`, `.filter(gate).map(..)`, and a plain `Some(e.stream_version)` under an if
    def _reads_version(term):
        return any(isinstance(x, tuple) and x and x[0] == "field" and x[2] == "stream_version" and "EventRecord" in str(x[3]) for x in walk(term))

    def _closure_gate_ok(cterm):
        """closure `|e| X(e) < W`: true means X <= W-1"""
        from ..gate import Gate, SWAP
        cterm = strip(cterm)
        if cterm[0] == "bin" and cterm[1] in ("Lt", "Le", "Gt", "Ge"):
            a, c = cterm[2], cterm[3]
            if cls.has_x(a) and cls.has_y(c):
                g = Gate(None, 0, cterm[1], a, c, linear(a)[1], y_offset(cls, c), 0)
            elif cls.has_x(c) and cls.has_y(a):
                g = Gate(None, 0, SWAP[cterm[1]], c, a, linear(c)[1], y_offset(cls, a), 0)
            else:
                return None, show(cterm)
            m = g.bound_on(True)
            return (m is not None and m <= -1), "%s => X <= W%s" % (show(cterm)[:80], ("%+d" % m) if m is not None else "?")
        if cterm[0] == "call" and cterm[1] == CAN_READ:
            return cls.has_x(cterm[2][1]) if len(cterm[2]) > 1 else None, "can_read(..)"
        return None, show(cterm)[:80]

    for b in prog.family(root):
        ev = Ev(prog, b)
        for bi, t in b.calls():
            c = b.callee_decl(t) or ""
            last = c.rsplit("::", 1)[-1]
            if last in ("map", "and_then", "filter_map") and len(t["args"]) == 2:
                f = strip(ev.operand(t["args"][1], (bi, "T")))
                if not (f[0] == "agg" and str(f[1]).startswith("closure:")):
                    continue
                ret = cls.closure_return(f[1].split(":", 1)[1])
                if not _reads_version(ret) or any(isinstance(x, tuple) and x and x[0] == "call" and "then_some" in x[1] for x in walk(ret)):
                    continue
                n += 1
                recv = resolve_upvars(prog, ev.operand(t["args"][0], (bi, "T")), b)
                verdicts = []
                for x in walk(recv):
                    if isinstance(x, tuple) and x and x[0] == "call" and x[1].rsplit("::", 1)[-1] in ("find", "filter", "take_while", "rfind") and len(x[2]) == 2:
                        g = strip(x[2][1])
                        if g[0] == "agg" and str(g[1]).startswith("closure:"):
                            verdicts.append(_closure_gate_ok(resolve_upvars(prog, cls.closure_return(g[1].split(":", 1)[1]), prog.bodies[g[1].split(":", 1)[1]])))
                n_gates += len(verdicts)
                if any(v[0] for v in verdicts):
                    chk.ok("R7.2", "GetStreamVersion: version taken from an event selected by %s" % [v[1] for v in verdicts if v[0]][0], b.where(t["line"]))
                else:
                    chk.fail("R7.2", root, "map-version/watermark", "a stream version is taken from an event that was not selected by `partition_sequence < watermark` (selectors seen: %s)" %
                             [v[1] for v in verdicts], b, t["line"])
        for i, j, st in b.assigns():
            rv = st["rv"]
            if rv["k"] == "agg" and rv["ak"].endswith("Option::Some") and _reads_version(ev.operand(rv["ops"][0], (i, j))) and b.kind != "Closure":
                n += 1
                okg, seen = gated(prog, cls, b, i, ev)
                n_gates += len(seen)
                if okg:
                    chk.ok("R7.2", "GetStreamVersion: Some(version) under a watermark gate", b.where(st["line"]))
                else:
                    chk.fail("R7.2", root, "some-version/watermark", "Some(stream_version) is built without a dominating `partition_sequence < watermark` (gates seen: %s)" % seen, b, st["line"])
    if n == 0:
        raise Inconclusive("GetStreamVersion: no site that reveals an event's stream version was recognised (then_some / find+map / Some under if)")

    # ---- GetPartitionSequence: reply(Ok(watermark.get().checked_sub(1)))
    root = MSG % "GetPartitionSequence"
    n = 0
    for b in prog.family(root):
        chk.analysed(b.path)
        ev = Ev(prog, b)
        for bi, t in b.calls():
            c = b.callee_decl(t) or ""
            if c.endswith("Context::<A, R>::reply") or c.endswith("::reply") and "Context" in c:
                term = resolve_upvars(prog, ev.operand(t["args"][1], (bi, "T")), b)
                if not cls.deep(term, cls.is_y_leaf):
                    continue
                n += 1
                # every Y leaf must sit under checked_sub(_, 1)
                good = True
                found = False
                for x in walk(term):
                    if isinstance(x, tuple) and x and x[0] == "call" and x[1].endswith("::checked_sub"):
                        k = strip(x[2][1])
                        if cls.has_y(x[2][0]) and k[0] == "const" and k[2] == 1 and y_offset(cls, x[2][0]) == 0:
                            found = True
                        else:
                            good = False
                bare = _bare_y(cls, term)
                if found and good and not bare:
                    chk.ok("R7.2", "GetPartitionSequence replies watermark.checked_sub(1)", b.where(t["line"]))
                else:
                    chk.fail("R7.2", root, "reply/latest-sequence", "latest partition sequence is not `watermark.checked_sub(1)`: %s" % show(term), b, t["line"])
    if n == 0:
        raise Inconclusive("GetPartitionSequence: no local reply derived from the watermark found")

    # ---- live broadcast loops of the confirmation actor
    n_gates += check_actor_broadcast(chk, prog, cls, "R7.2")

    chk.floor("R7.1", n_gates, 10)

    # ---- R7.3 quorum shapes
    quorum.check_all(chk, prog, "R7.3")
    # the inputs of the quorum / watermark computation are bound to the right roles at every call (shared with C08 R8.6)
    quorum.check_role_args(chk, prog, "R7.3")

    # ---- R7.4 coverage of database readers
    gated_roots = {IMPL + "handle_local_read", IMPL + "handle_partition_read_locally", IMPL + "handle_stream_read_locally",
                   MSG % "GetStreamVersion",
                   "sierradb_cluster::write::replicate::<impl kameo::message::Message<write::replicate::PartitionSyncRequest> for ClusterActor>::handle",
                   "sierradb_cluster::<confirmation::actor::ConfirmationActor as kameo::message::Message<confirmation::actor::UpdateConfirmationWithBroadcast>>::handle",
                   "sierradb_cluster::<confirmation::actor::ConfirmationActor as kameo::message::Message<confirmation::actor::TriggerBroadcast>>::handle"}
    allow = {
        "sierradb_cluster::subscription::Subscription::read_partition_history": "subscription history: gated by can_read, decided under C09 (R9.1)",
        "sierradb_cluster::subscription::Subscription::read_partitions_history": "subscription history: gated by can_read, decided under C09 (R9.1)",
        "sierradb_cluster::subscription::Subscription::read_stream_history": "subscription history: gated by can_read, decided under C09 (R9.1)",
        "sierradb_cluster::confirmation::BucketConfirmationManager::initialize": "restart replay: feeds update_confirmation, returns nothing to clients (C08 R8.5)",
        "sierradb_cluster::write::confirm::<impl kameo::message::Message<write::confirm::ConfirmTransaction> for ClusterActor>::handle": "reads the transaction to compare ids before confirming; replies no events (C10 R10.3)",
    }
    readers = ("sierradb::database::Database::read_partition", "sierradb::database::Database::read_stream",
               "sierradb::database::Database::read_event", "sierradb::database::Database::read_transaction")
    seen_roots = set()
    for b in prog.bodies.values():
        for bi, t in b.calls():
            if (b.callee_decl(t) or "") in readers:
                r = b.root or b.path
                seen_roots.add((r, b.callee_decl(t), b, t["line"]))
    for r, callee, b, line in sorted(seen_roots, key=lambda x: (x[0], x[3])):
        if r in gated_roots:
            chk.ok("R7.4", "%s reads via %s: gated handler" % (r.split("::")[-1] if "handle" not in r.split("::")[-1] else r, callee.split("::")[-1]), b.where(line))
        elif r in allow:
            chk.ok("R7.4", "%s reads via %s: allow-listed (%s)" % (r, callee.split("::")[-1], allow[r]), b.where(line))
        else:
            chk.fail("R7.4", r, "ungated-reader:%s" % callee.split("::")[-1],
                     "function reads events from the database but is neither a watermark-gated handler nor allow-listed", b, line)
    return {}


def _bare_y(cls, term):
    """is there a Y leaf that is not underneath a checked_sub?"""
    def rec(t, under):
        if not isinstance(t, tuple) or not t:
            return False
        if cls.is_y_leaf(t):
            return not under
        if t[0] == "call":
            u = under or t[1].endswith("::checked_sub")
            if any(rec(a, u) for a in t[2]):
                return True
            # closures passed as arguments
            for a in t[2]:
                a = strip(a)
                if a[0] == "agg" and a[1].startswith("closure:"):
                    if rec(cls.closure_return(a[1].split(":", 1)[1]), u):
                        return True
            return False
        if t[0] in ("field", "variant", "discr", "partial", "cast", "index"):
            return rec(t[1], under)
        if t[0] == "bin":
            return rec(t[2], under) or rec(t[3], under)
        if t[0] == "un":
            return rec(t[2], under)
        if t[0] == "agg":
            return any(rec(a, under) for a in t[2])
        if t[0] == "phi":
            return any(rec(a, under) for a in t[1])
        return False
    return rec(term, False)


def _check_dead_pending_events(chk, prog, rule="R7.2"):
    owner = "sierradb_cluster::confirmation::actor::ConfirmationActor"
    users = set()
    for b in prog.bodies.values():
        for i, j, s in b.assigns():
            for pl in _places_of(s):
                for (n, o) in [(e["n"], e["o"]) for e in pl["p"] if isinstance(e, dict) and "f" in e]:
                    if n == "pending_events" and o == owner:
                        users.add(b.root or b.path)
    allowed = {"sierradb_cluster::confirmation::actor::ConfirmationActor::broadcast_confirmed_events"}
    extra = users - allowed
    if extra:
        chk.fail(rule, sorted(extra)[0], "pending_events-writer",
                 "ConfirmationActor.pending_events is now accessed outside broadcast_confirmed_events; that broadcast path sends "
                 "events without a watermark comparison and was only accepted because nothing fills the map", None)
    else:
        chk.ok(rule, "broadcast_confirmed_events: its source map `pending_events` has no other user (dead path)", "")


def _places_of(s):
    out = [s["lhs"]]
    rv = s["rv"]
    for k in ("place",):
        if k in rv:
            out.append(rv[k])
    for k in ("op", "a", "b"):
        o = rv.get(k)
        if isinstance(o, dict):
            p = op_place(o)
            if p:
                out.append(p)
    for o in rv.get("ops", []):
        p = op_place(o)
        if p:
            out.append(p)
    return out
