"""C10 - at most one transaction is confirmed per partition sequence (R10.1-R10.4)."""
from ..facts import Program, Inconclusive, op_place
from ..flow import Ev, walk, resolve_upvars, show, strip
from ..gate import comparisons, switch_on, edge_dominates, linear, SWAP, Classifier
from ..util import calls, ok_return_blocks, variant_edge_dominates, discr_switches
from .. import quorum
from . import c11

REPL = "sierradb_cluster::write::replicate::"
HANDLER = REPL + "<impl kameo::message::Message<write::replicate::ReplicateWrite> for ClusterActor>::handle"
PRA = REPL + "PartitionReplicatorActor::"
TX = "sierradb_cluster::write::transaction::"
FROM_NEXT = "ExpectedVersion::from_next_version"


def has_call(term, pred):
    return any(isinstance(x, tuple) and x and x[0] == "call" and pred(x[1]) for x in walk(term))


def has_field(term, name, owner_sub=""):
    return any(isinstance(x, tuple) and x and x[0] == "field" and x[2] == name and owner_sub in x[3] for x in walk(term))


def run(chk, facts_dir, tier):
    prog = Program(facts_dir, crates=["sierradb_cluster-lib"])
    cls = Classifier(prog, lambda t: False, lambda t: False)
    chk.rule("R10.1", "EXACT PLACEMENT: the ReplicateWrite handler forwards only writes whose expected partition sequence is Empty/Exact; catch-up re-applies events "
                      "with stream_version = from_next_version(event.stream_version) and asks from buffered_writes.next()")
    chk.rule("R10.2", "transaction::run replicates the transaction with expected_partition_sequence(from_next_version(append.first_partition_sequence))")
    chk.rule("R10.3", "the handler forwards only after the sender check (coordinator found among the available replicas) and the staleness check "
                      "(coordinator_alive_since >= alive_since); ConfirmTransaction writes confirmations only after the length, sequence and event-id comparisons")
    chk.rule("R10.5", "ONLY ACKS COUNT: the coordinator adds a replica to confirmed_replicas only on the Ok arm of that replica's reply; an error reply (StaleWrite: the replica holds "
                      "something else at that sequence) never counts towards the quorum that confirms the coordinator's own transaction")
    chk.rule("R10.4", "IDENTITY OF BUFFERED WRITES: BufferedWrite::key_eq compares transaction ids (a different transaction for an already buffered sequence is a "
                      "conflict, never a merge); quorum shape: see C07 R7.3")
    chk.not_decided += ["agreement under arbitrary fault schedules (delays, drops, divergent membership)", "the database's own expected-sequence check (C02 R2.4)"]

    # ---------------- R10.1a / R10.3 on the ClusterActor handler
    fam = prog.family(HANDLER)
    hb = None
    for b in fam:
        chk.analysed(b.path)
        if calls(b, "try_forward", suffix=True) or calls(b, "Context::<A, R>::try_forward", suffix=True):
            hb = b
    if hb is None:
        for b in fam:
            if any("try_forward" in (b.callee_decl(t) or "") for bi, t in b.calls()):
                hb = b
    if hb is None:
        raise Inconclusive("ReplicateWrite handler: forward call not found")
    ev = Ev(prog, hb)
    fwd = [(bi, t) for bi, t in hb.calls() if "try_forward" in (hb.callee_decl(t) or "")]
    fb, ft = fwd[0]
    # (a) expected sequence variants
    ok_a = False
    for sb, place, targets, otherwise in discr_switches(hb):
        term = ev.place(place, (sb, "T"))
        if not has_call(term, lambda n: n.endswith("get_expected_partition_sequence")):
            continue
        # ExpectedVersion { Any=0, Exists=1, Empty=2, Exact=3 }
        # the arm taken for Any (0) and for Exists (1): explicit target or the `otherwise` edge
        bad_targets = [targets.get("0", otherwise), targets.get("1", otherwise)]
        reach_bad = set()
        for bt in bad_targets:
            reach_bad |= hb.reach_from([bt], avoid=frozenset([sb]))
        if fb not in reach_bad and hb.dominates(sb, fb):
            ok_a = True
    if ok_a:
        chk.ok("R10.1", "writes with expected sequence Any/Exists are rejected before forwarding", hb.where(ft["line"]))
    else:
        chk.fail("R10.1", HANDLER, "inexact-forwarded", "a replicated write whose expected partition sequence is Any/Exists can be forwarded to the replicator: it would be buffered "
                 "under no definite sequence and applied wherever the log happens to be", hb, ft["line"])
    # sender check: forward dominated by the Some edge of the find()
    hits = variant_edge_dominates(hb, ev, fb, lambda term: has_call(term, lambda n: n.endswith("Iterator::find")), "std::option::Option<", "1")
    if hits:
        chk.ok("R10.3", "forward only if the coordinator is among the available replicas", hb.where(ft["line"]))
    else:
        chk.fail("R10.3", HANDLER, "sender-unchecked", "the write is forwarded without checking that its coordinator is a live replica of the partition", hb, ft["line"])
    stale_ok = False
    for c in comparisons(prog, hb, ev):
        a, d, op = c["a"], c["b"], c["op"]
        if has_field(a, "coordinator_alive_since") and not has_field(d, "coordinator_alive_since"):
            pass
        elif has_field(d, "coordinator_alive_since") and not has_field(a, "coordinator_alive_since"):
            op = SWAP[op]
        else:
            continue
        sw = switch_on(hb, c["sw_block"], c["lhs"]["l"])
        if not sw:
            continue
        edge = (c["sw_block"], sw[1]) if op == "Lt" else ((c["sw_block"], sw[0]) if op == "Ge" else None)
        if edge and edge_dominates(hb, edge[0], edge[1], fb):
            stale_ok = True
    if stale_ok:
        chk.ok("R10.3", "forward only if coordinator_alive_since >= the locally known alive_since", hb.where(ft["line"]))
    else:
        chk.fail("R10.3", HANDLER, "staleness-unchecked", "a write from a coordinator incarnation older than the locally known one can be forwarded", hb, ft["line"])

    # ---------------- R10.1b catch-up
    n_new = 0
    for b in prog.bodies.values():
        if not (b.root or b.path).startswith("sierradb_cluster::<write::replicate::PartitionReplicatorActor as kameo::message::Message<write::replicate::PartitionSyncResponse>>"):
            continue
        chk.analysed(b.path)
        e2 = Ev(prog, b)
        for i, j, s in b.assigns():
            if s["rv"]["k"] == "agg" and s["rv"]["ak"] == "adt:sierradb::database::NewEvent":
                n_new += 1
                sv = e2.operand(s["rv"]["ops"][s["rv"]["fields"].index("stream_version")], (i, j))
                t = strip(sv)
                if t[0] == "call" and t[1].endswith(FROM_NEXT) and has_field(t[2][0], "stream_version", "EventRecord"):
                    chk.ok("R10.1", "catch-up re-applies events with exact stream versions", b.where(s["line"]))
                else:
                    chk.fail("R10.1", b.root or b.path, "catchup-inexact-version", "events re-applied by the catch-up path do not carry from_next_version(event.stream_version): "
                             "a duplicate delivered both ways would be applied twice (%s)" % show(sv)[:80], b, s["line"])
    chk.floor("R10.1-catchup", n_new, 1)
    gb = prog.body(PRA + "detect_and_handle_gaps")
    chk.analysed(gb.path)
    gev = Ev(prog, gb)
    tc = calls(gb, PRA + "trigger_catch_up")
    if len(tc) == 1:
        frm = gev.operand(tc[0][1]["args"][3], (tc[0][0], "T"))
        if has_call(frm, lambda n: n.endswith("TimeoutOrderedQueue::<K, V>::next") or n.endswith("OrderedQueue::<K, V>::next")):
            chk.ok("R10.1", "catch-up asks from the replica's own next expected sequence", gb.where(tc[0][1]["line"]))
        else:
            chk.fail("R10.1", PRA + "detect_and_handle_gaps", "catchup-from", "the catch-up range does not start at buffered_writes.next(): %s" % show(frm)[:80], gb, tc[0][1]["line"])
    else:
        raise Inconclusive("detect_and_handle_gaps: trigger_catch_up call not found")

    # ---------------- R10.2
    n_rw = 0
    for b in prog.family(TX + "run"):
        e2 = Ev(prog, b)
        for i, j, s in b.assigns():
            if s["rv"]["k"] == "agg" and s["rv"]["ak"] == "adt:" + REPL + "ReplicateWrite":
                n_rw += 1
                chk.analysed(b.path)
                txv = resolve_upvars(prog, e2.operand(s["rv"]["ops"][s["rv"]["fields"].index("transaction")], (i, j)), b)
                good = any(isinstance(x, tuple) and x and x[0] == "call" and x[1].endswith("Transaction::expected_partition_sequence") and
                           any(isinstance(y, tuple) and y and y[0] == "call" and y[1].endswith(FROM_NEXT) and has_field(y[2][0], "first_partition_sequence", "AppendResult") for y in walk(x))
                           for x in walk(txv))
                if good:
                    chk.ok("R10.2", "replicated transaction pinned to from_next_version(append.first_partition_sequence)", b.where(s["line"]))
                else:
                    chk.fail("R10.2", TX + "run", "unpinned-replication", "the transaction sent to the replicas is not pinned to the sequence the coordinator's own append got: "
                             "replicas may place it elsewhere (%s)" % show(txv)[:100], b, s["line"])
    chk.floor("R10.2", n_rw, 1)

    # ---------------- R10.3 ConfirmTransaction
    CONF = "sierradb_cluster::write::confirm::<impl kameo::message::Message<write::confirm::ConfirmTransaction> for ClusterActor>::handle"
    found = False
    for b in prog.family(CONF):
        rc = calls(b, TX + "set_confirmations_with_retry")
        if not rc:
            continue
        found = True
        chk.analysed(b.path)
        e2 = Ev(prog, b)
        kinds = set()
        for c in comparisons(prog, b, e2):
            both = list(walk(c["a"])) + list(walk(c["b"]))
            names = {x[2] for x in both if isinstance(x, tuple) and x and x[0] == "field"}
            txt = show(c["a"]) + " " + show(c["b"])
            if "len" in txt and "event_ids" in txt:
                kinds.add("length")
            if "partition_sequence" in names:
                kinds.add("sequence")
        # the event-id comparison lives in a closure
        for cb in prog.children(CONF):
            for c in comparisons(prog, cb):
                both = list(walk(c["a"])) + list(walk(c["b"]))
                if any(isinstance(x, tuple) and x and x[0] == "field" and x[2] == "event_id" for x in both):
                    kinds.add("event-id")
        missing = {"length", "sequence", "event-id"} - kinds
        if missing:
            chk.fail("R10.3", CONF, "confirm-unchecked:" + ",".join(sorted(missing)), "ConfirmTransaction stamps confirmation counts without comparing %s with the stored transaction" % sorted(missing), b, rc[0][1]["line"])
        else:
            chk.ok("R10.3", "ConfirmTransaction compares length, partition sequences and event ids before set_confirmations", b.where(rc[0][1]["line"]))
        # the transaction looked up is the one named by the message's first event id
        rt = calls(b, "sierradb::database::Database::read_transaction")
        if rt and all(b.dominates(rt[0][0], r[0]) for r in rc):
            chk.ok("R10.3", "confirmations are written for the transaction read back by event id", b.where(rt[0][1]["line"]))
        else:
            chk.fail("R10.3", CONF, "confirm-without-lookup", "confirmations are written without reading the transaction back first", b, rc[0][1]["line"])
    if not found:
        raise Inconclusive("ConfirmTransaction handler: set_confirmations_with_retry call not found")

    # ---------------- R10.4
    KE = "sierradb_cluster::write::replicate::<impl write::ordered_queue::OrderedValue for write::replicate::BufferedWrite>::key_eq"
    cands = [p for p in prog.bodies if p.endswith("::key_eq") and "BufferedWrite" in p]
    if not cands:
        raise Inconclusive("BufferedWrite::key_eq not found")
    kb = prog.body(cands[0])
    chk.analysed(kb.path)
    ret = cls.closure_return(kb.path)
    cmps = [x for x in walk(ret) if isinstance(x, tuple) and x and x[0] == "call" and x[1].rsplit("::", 1)[-1] in ("eq", "ne")]
    okk = len(cmps) == 1 and cmps[0][1].endswith("::eq") and all(has_call(a, lambda n: n.endswith("Transaction::transaction_id")) for a in cmps[0][2]) and strip(ret) == cmps[0]
    if okk:
        chk.ok("R10.4", "BufferedWrite::key_eq == (transaction ids equal)", kb.where())
    else:
        chk.fail("R10.4", kb.path, "key_eq-not-transaction-id", "two buffered writes are considered the same write by something other than their transaction id (%s): a different "
                 "transaction arriving for a buffered sequence is merged and acknowledged instead of rejected as a conflict" % show(ret)[:120], kb)
    # ---------------- R10.5
    from . import c11
    rb = prog.body(c11.RUN)
    chk.analysed(rb.path)
    c11.count_only_acks(chk, prog, rb, Ev(prog, rb), "R10.5")
    # ---------------- R10.6 the storage check that backs the replicas' exact placement
    chk.rule("R10.6", "EXACT MEANS EQUAL: the database accepts an append expecting Exact(sequence) only when the partition's next sequence is exactly sequence + 1 "
                      "(equality, not `>`): it is the last guard that keeps a node from acknowledging a second transaction for a sequence it already holds (shared with C25 R25.6)")
    from . import c25
    c25.exact_sequence_gate(chk, Program(facts_dir, crates=["sierradb-lib"]), "R10.6")
    return {}
