"""C03 - scans are exact, ordered and gapless: the clause 'never an event of another stream / key' (R3.1-R3.3) and three structural conditions of the scan cursor (R3.4-R3.6)."""
from ..facts import Program, Inconclusive, op_place
from ..flow import Ev, walk, show, strip, resolve_upvars
from ..gate import comparisons, switch_on, edge_dominates, Classifier
from ..util import ok_return_blocks
from . import c04

S = "sierradb::bucket::"
FILTER = "sierradb::<bucket::iter::StreamIterConfig as bucket::iter::IterConfig>::filter_commit"
LOOKUPS = (
    (S + "stream_index::closed::ClosedStreamIndex::get_key", "stream id"),
    (S + "partition_index::closed::ClosedPartitionIndex::get_key", "partition id"),
    (S + "event_index::ClosedEventIndex::get", "event id"),
)


def _has_param(term, idx=None):
    return any(isinstance(x, tuple) and x and x[0] == "param" and (idx is None or x[1] == idx) and x[1] != 1 for x in walk(term))


def _field(term, name, owner_part):
    return any(isinstance(x, tuple) and x and x[0] == "field" and x[2] == name and owner_part in str(x[3]) for x in walk(term))


def run(chk, facts_dir, tier):
    prog = Program(facts_dir, crates=["sierradb-lib"])
    chk.rule("R3.1", "FILTER APPLIED: every batch BucketIter::next_batch returns went through IterConfig::filter_commit (same rule as C04 R4.5)")
    chk.rule("R3.2", "FILTER PREDICATE: StreamIterConfig::filter_commit keeps an event only on the equal edge of `event.stream_id == self.stream_id` (single events) and retains "
                     "exactly the events for which that comparison holds (transactions)")
    chk.rule("R3.3", "KEY VERIFICATION: the MPHF of a sealed segment maps keys it was not built from to arbitrary slots, so every lookup that goes through Mphf::try_hash "
                     "(ClosedStreamIndex::get_key, ClosedPartitionIndex::get_key, ClosedEventIndex::get) returns Ok(Some(..)) only on the equal edge of a comparison between the key "
                     "stored in the slot and the key asked for")
    chk.not_decided += ["exactness, order and gaplessness of scans: offset-index arithmetic (position - min version), block-cache boundaries, segment hand-over (e.g. seeded/C15b) "
                        "are arithmetic on runtime layouts and are NOT decided by any static rule here",
                        "reverse scans beyond the start index (R3.6), batch-size independence, equality before/after reopen"]

    # ---------------- R3.1
    c04.stream_filter_applied(chk, prog, "R3.1")

    # ---------------- R3.2
    fb = prog.body(FILTER)
    chk.analysed(fb.path)
    fev = Ev(prog, fb)
    cmps = []
    for c in comparisons(prog, fb, fev):
        sides = (c["a"], c["b"])
        if any(_field(x, "stream_id", "EventRecord") for x in sides) and any(_field(x, "stream_id", "StreamIterConfig") for x in sides):
            cmps.append(c)
    singles = [(i, s) for i, j, s in fb.assigns() if s["rv"]["k"] == "agg" and s["rv"]["ak"].endswith("CommittedEvents::Single")]
    if not singles:
        raise Inconclusive("filter_commit: no CommittedEvents::Single construction found")
    for i, s in singles:
        ok = False
        for c in cmps:
            sw = switch_on(fb, c["sw_block"], c["lhs"]["l"])
            if not sw:
                continue
            edge = sw[0] if c["op"] == "Eq" else (sw[1] if c["op"] == "Ne" else None)
            if edge is not None and edge_dominates(fb, c["sw_block"], edge, i):
                ok = True
        if ok:
            chk.ok("R3.2", "single event kept only under event.stream_id == self.stream_id", fb.where(s["line"]))
        else:
            chk.fail("R3.2", FILTER, "single-not-filtered", "a single event is handed to a stream scan without the equal edge of `event.stream_id == self.stream_id`: events of other "
                     "streams that share the segment offsets are returned", fb, s["line"])
    cls = Classifier(prog, lambda t: False, lambda t: False)
    retains = [(bi, t) for bi, t in fb.calls() if (fb.callee_decl(t) or "").rsplit("::", 1)[-1] in ("retain", "retain_mut")]
    if len(retains) != 1:
        chk.fail("R3.2", FILTER, "transaction-filter-shape", "the transaction arm no longer filters its events with exactly one retain (found %d)" % len(retains), fb)
    else:
        bi, t = retains[0]
        cl = strip(fev.operand(t["args"][1], (bi, "T")))
        good = False
        if cl[0] == "agg" and str(cl[1]).startswith("closure:"):
            cp = cl[1].split(":", 1)[1]
            cb = prog.bodies.get(cp)
            ret = strip(cls.closure_return(cp))
            is_eq = (ret[0] == "call" and ret[1].endswith("::eq") and "PartialEq" in ret[1]) or (ret[0] == "bin" and ret[1] == "Eq")
            if cb is not None and is_eq:
                args = ret[2] if ret[0] == "call" else (ret[2], ret[3])
                good = len(args) == 2 and any(_field(a, "stream_id", "EventRecord") for a in args) and any(_field(a, "stream_id", "StreamIterConfig") for a in args)
            chk.analysed(cp)
        if good:
            chk.ok("R3.2", "transaction events retained iff event.stream_id == self.stream_id", fb.where(t["line"]))
        else:
            chk.fail("R3.2", FILTER, "transaction-filter-predicate", "the retain predicate of the transaction arm is not `event.stream_id == self.stream_id`", fb, t["line"])

    # ---------------- R3.3
    n = 0
    for path, what in LOOKUPS:
        b = prog.bodies.get(path)
        if b is None:
            raise Inconclusive("lookup %s not found" % path)
        chk.analysed(path)
        ev = Ev(prog, b)
        th = [(bi, t) for bi, t in b.calls() if (b.callee_decl(t) or "").endswith("Mphf::<T>::try_hash")]
        if not th:
            raise Inconclusive("%s: no Mphf::try_hash call" % path)
        key_cmps = []
        for c in comparisons(prog, b, ev):
            if c["op"] not in ("Eq", "Ne"):
                continue
            pa, pb = _has_param(c["a"]), _has_param(c["b"])
            if pa == pb:
                continue      # one side must be the requested key, the other must not be
            other = c["b"] if pa else c["a"]
            # the other side comes from the slot: it depends on bytes read from the file (an index / from_le_bytes / from_utf8 / from_bytes over a buffer)
            if not any(isinstance(x, tuple) and x and x[0] in ("index", "call") for x in walk(other)):
                continue
            sw = switch_on(b, c["sw_block"], c["lhs"]["l"])
            if sw:
                key_cmps.append((c, sw))
        for hb, ht in th:
            reach = b.reach_from([ht["target"]])
            for ob, s in ok_return_blocks(b):
                if ob not in reach:
                    continue
                term = strip(ev.operand(s["rv"]["ops"][0], (ob, "T")))
                if not (term[0] == "agg" and str(term[1]).endswith("Option::Some")):
                    continue
                n += 1
                ok = False
                for c, sw in key_cmps:
                    edge = sw[0] if c["op"] == "Eq" else sw[1]
                    # `a != b || other` / `other || a != b` forms: the equal edge may pass through one more switch; dominance is what matters
                    if edge_dominates(b, c["sw_block"], edge, ob):
                        ok = True
                if ok:
                    chk.ok("R3.3", "%s: Some(record) only if the stored %s equals the requested one" % (path.rsplit("::", 2)[-2], what), b.where(s["line"]))
                else:
                    chk.fail("R3.3", path, "unverified-slot", "a record found through the MPHF is returned without comparing the %s stored in the slot with the one asked for: a key that "
                             "is not in this segment aliases to another key's record (events of another stream / partition / id are returned)" % what, b, s["line"])
    chk.floor("R3.3", n, 3)

    # ---------------- R3.4 the resume cursor of a scan is read from the right end of the batch
    chk.rule("R3.4", "CURSOR ACCESSORS: CommittedEvents::{first,last}_{partition_sequence,stream_version} read the element their name says (slice `first` for first_*, `last` "
                     "for last_*) and the field their name says: BucketIter resumes a scan at last_* + 1 and picks the next segment by it, so a `last_*` that answers the "
                     "first event of a transaction makes every later segment look already passed and the scan ends early")
    CE = "sierradb::bucket::segment::reader::CommittedEvents::"
    n4 = 0
    for end in ("first", "last"):
        for fld in ("partition_sequence", "stream_version"):
            path = CE + "%s_%s" % (end, fld)
            fam4 = prog.family(path) if path in prog.bodies else []
            if not fam4:
                raise Inconclusive("%s not found" % path)
            chk.analysed(path)
            names = set()
            fields = set()
            for b in fam4:
                for _, t in b.calls():
                    names.add((b.callee_decl(t) or "").rsplit("::", 1)[-1])
                ev4 = Ev(prog, b)
                for r in b.return_blocks():
                    for x in walk(ev4.place({"l": 0, "p": []}, (r, "T"))):
                        if isinstance(x, tuple) and x and x[0] == "field" and x[2] in ("partition_sequence", "stream_version"):
                            fields.add(x[2])
            picks_first = bool(names & {"first", "first_mut"}) or ("next" in names and not names & {"rev", "next_back"})
            picks_last = bool(names & {"last", "last_mut", "next_back"}) or ("rev" in names and "next" in names)
            n4 += 1
            if picks_first == picks_last:
                raise Inconclusive("%s: cannot tell which end of the transaction it reads (callees %s)" % (path, sorted(names)))
            got = "first" if picks_first else "last"
            if got != end:
                chk.fail("R3.4", path, "cursor-wrong-end", "%s_%s reads the %s event of a transaction: the scan cursor derived from it points %s the batch just returned" % (
                    end, fld, got, "into" if end == "last" else "past the start of"), prog.bodies[path])
            elif fields and fields != {fld}:
                chk.fail("R3.4", path, "cursor-wrong-field", "%s_%s returns the field %s" % (end, fld, sorted(fields)), prog.bodies[path])
            else:
                chk.ok("R3.4", "%s_%s reads `%s()` . %s" % (end, fld, got, fld), prog.bodies[path].where())
    chk.floor("R3.4", n4, 4)

    # ---------------- R3.5 the cursor is derived from what the scan returned
    chk.rule("R3.5", "CURSOR FROM THE RETURNED BATCH: every commit BucketIter::next_batch hands to IterConfig::extract_last_position (the value `last_position`, by which the "
                     "next segment is chosen and positioned, is computed from) either passed IterConfig::filter_commit or is the back of the buffered, already filtered batch. "
                     "The last event of an unfiltered multi-stream transaction belongs to another stream: its version is not a position of the scanned stream (found D24)")
    nb = prog.body("sierradb::bucket::iter::BucketIter::<C>::next_batch::{closure#0}")
    chk.analysed(nb.path)
    nev = Ev(prog, nb)
    cls5 = Classifier(prog, lambda t: False, lambda t: False)
    n5 = 0
    # private helpers of the iterator that wrap extract_last_position: `fn position_after(&self, commit)` -> which parameter is the commit
    wrappers = {}
    for p_, hb in prog.bodies.items():
        if not p_.startswith("sierradb::bucket::iter::") or "{closure" in p_ or "next_batch" in p_:
            continue
        hev = None
        for hbi, ht in hb.calls():
            if (hb.callee_decl(ht) or "").endswith("::extract_last_position") and len(ht["args"]) >= 2:
                hev = hev or Ev(prog, hb)
                a = strip(hev.operand(ht["args"][1], (hbi, "T")))
                if a[0] == "param" and isinstance(a[1], int):
                    wrappers[p_] = a[1] - 1
    for b5 in [nb] + [c for c in prog.children(nb.path)]:
        ev5 = nev if b5 is nb else Ev(prog, b5)
        for bi, t in b5.calls():
            if (b5.callee_decl(t) or "").endswith("::extract_last_position") and len(t["args"]) >= 2:
                ai = 1
            elif (b5.callee(t) or b5.callee_decl(t) or "") in wrappers:
                ai = wrappers[b5.callee(t) or b5.callee_decl(t)]
                if ai >= len(t["args"]):
                    continue
            else:
                continue
            n5 += 1
            term = resolve_upvars(prog, ev5.operand(t["args"][ai], (bi, "T")), b5)
            filt = cls5.deep(term, lambda x: isinstance(x, tuple) and x and x[0] == "call" and "filter_commit" in x[1])
            buffered = any(isinstance(x, tuple) and x and ((x[0] == "field" and x[2] == "batch") or (x[0] == "upvar" and x[1].split(".")[-1] == "batch")) for x in walk(term))
            if filt:
                chk.ok("R3.5", "cursor taken from the filtered batch", b5.where(t["line"]))
            elif buffered:
                chk.ok("R3.5", "cursor taken from the buffered (already filtered) batch", b5.where(t["line"]))
            else:
                chk.fail("R3.5", "sierradb::bucket::iter::BucketIter::<C>::next_batch", "cursor-from-unfiltered", "the resume position is computed from a commit that did not pass "
                         "filter_commit (%s): when a stream scan's batch ends with a multi-stream transaction whose last event belongs to another stream, the scan continues in the "
                         "next segment at that other stream's version and skips or repeats events" % show(term)[:90], b5, t["line"])
    chk.floor("R3.5", n5, 2)

    # ---------------- R3.6 reverse scans start at the mirrored index
    chk.rule("R3.6", "REVERSE MIRROR: SegmentIter::new positions a reverse scan at `len - 1 - offsets_index` for every in-range start index; the start index is compared with "
                     "`offsets.len()` only - no start position is special-cased by a comparison with a constant (found D25: index 0 was read as 'from the end', so a reverse "
                     "scan from the first position of a segment returned the whole segment)")
    sn = prog.body("sierradb::bucket::segment::iter::SegmentIter::new")
    chk.analysed(sn.path)
    sev = Ev(prog, sn)
    from .c13 import addsub_leaves
    mirror = False
    for i, j, s_ in sn.assigns():
        if s_["rv"]["k"] == "agg" and str(s_["rv"].get("ak", "")).endswith("segment::iter::SegmentIter") and "offsets_index" in s_["rv"]["fields"]:
            t = strip(sev.operand(s_["rv"]["ops"][s_["rv"]["fields"].index("offsets_index")], (i, j)))
            for alt in (t[1] if t[0] == "phi" else (t,)):
                lv = [(sg, strip(lf)) for sg, lf in addsub_leaves(alt)]
                pos_len = [1 for sg, lf in lv if sg == 1 and lf[0] == "call" and lf[1].endswith("::len")]
                neg_idx = [1 for sg, lf in lv if sg == -1 and lf[0] == "param" and lf[2] == "offsets_index"]
                const = sum(sg * lf[2] for sg, lf in lv if lf[0] == "const" and isinstance(lf[2], int))
                if len(pos_len) == 1 and len(neg_idx) == 1 and const == -1 and len(lv) == 3:
                    mirror = True
    if mirror:
        chk.ok("R3.6", "reverse start index is len - 1 - offsets_index", sn.where())
    elif any(c_ in prog.bodies and c_.startswith("sierradb::") for _, t_ in sn.calls() for c_ in [sn.callee(t_) or sn.callee_decl(t_) or ""]):
        raise Inconclusive("SegmentIter::new: the reverse start index is computed by a helper; re-read it")
    else:
        chk.fail("R3.6", sn.path, "no-mirror", "SegmentIter::new no longer positions a reverse scan at len - 1 - offsets_index", sn)
    n6 = 0
    for c in comparisons(prog, sn, sev):
        for me, other in ((c["a"], c["b"]), (c["b"], c["a"])):
            m = strip(me)
            if not (m[0] == "param" and m[2] == "offsets_index"):
                continue
            n6 += 1
            o = strip(other)
            if o[0] == "const":
                chk.fail("R3.6", sn.path, "position-special-cased", "the start index is compared with the constant %s: that start position is treated differently from its neighbours "
                         "(index 0 read as 'from the end' makes a reverse scan from a segment's first event return the whole segment)" % show(o), sn, c["line"])
            else:
                chk.ok("R3.6", "start index compared with %s" % show(o)[:40], sn.where(c["line"]))
    chk.floor("R3.6", n6, 1)
    return {}
