"""Small helpers shared by the property modules."""
from .facts import op_place, Inconclusive


def calls(body, *names, suffix=False, contains=False):
    """(block, terminator) of calls whose declared or resolved callee matches one of names"""
    out = []
    for bi, t in body.calls():
        for c in (t["f"].get("fn"), t["f"].get("res")):
            if not c:
                continue
            hit = False
            for n in names:
                if c == n or (suffix and c.endswith(n)) or (contains and n in c):
                    hit = True
            if hit:
                out.append((bi, t))
                break
    return out


def one_call(body, *names, suffix=False, contains=False):
    cs = calls(body, *names, suffix=suffix, contains=contains)
    if len(cs) != 1:
        raise Inconclusive("%s: expected exactly one call to %s, found %d" % (body.path, names, len(cs)))
    return cs[0]


def last_field(place):
    fs = [e for e in place["p"] if isinstance(e, dict) and "f" in e]
    return fs[-1] if fs else None


def field_stores(body, field, owner_sub=""):
    """assign statements whose destination's last projection is the named field"""
    out = []
    for i, j, s in body.assigns():
        f = last_field(s["lhs"])
        if f and f["n"] == field and owner_sub in f["o"] and s["lhs"]["p"] and s["lhs"]["p"][-1] is not None:
            # the field must be the final projection element (a store to the field itself)
            last = s["lhs"]["p"][-1]
            if isinstance(last, dict) and "f" in last and last["n"] == field:
                out.append((i, j, s))
    # a call may also write its result straight into the field
    for bi, t in body.calls():
        f = last_field(t["dest"])
        if f and f["n"] == field and owner_sub in f["o"]:
            last = t["dest"]["p"][-1]
            if isinstance(last, dict) and "f" in last and last["n"] == field:
                out.append((bi, "T", {"lhs": t["dest"], "rv": {"k": "call", "t": t, "b": bi}, "line": t["line"], "exp": t.get("exp", "")}))
    return out


def ok_return_blocks(body):
    """blocks that assign `Result::Ok(..)` to the return place"""
    out = []
    for i, j, s in body.assigns():
        if s["lhs"]["l"] == 0 and not s["lhs"]["p"] and s["rv"]["k"] == "agg" and s["rv"]["ak"].endswith("Result::Ok"):
            out.append((i, s))
    return out


def must_pass(body, targets, through, start=0):
    """every path from `start` to any block in targets passes a block in `through`"""
    r = body.reach_from([start], avoid=frozenset(through))
    return [t for t in targets if t in r and t not in through]


def try_continue_block(body, call_block):
    """For `x = call(..)?` return the block entered on the Continue edge of the `?`, else None.
    Follows: call -> [await machinery is NOT followed] Try::branch(result) -> discriminant switch."""
    t = body.term(call_block)
    if t["k"] != "call" or t.get("target") is None:
        return None
    res_local = t["dest"]["l"]
    b = t["target"]
    seen = set()
    while b is not None and b not in seen:
        seen.add(b)
        tt = body.term(b)
        if tt["k"] == "call":
            c = tt["f"].get("fn") or ""
            if c.endswith("Try::branch"):
                p = op_place(tt["args"][0])
                if p and _copy_of(body, b, p["l"], res_local):
                    sw = body.term(tt["target"])
                    if sw["k"] == "switch":
                        for v, tgt in sw["targets"]:
                            if v == "0":
                                return tgt
                return None
            return None
        if tt["k"] == "goto":
            b = tt["target"]
            continue
        return None
    return None


def _copy_of(body, block, l, src):
    if l == src:
        return True
    for s in body.stmts(block):
        if s["k"] == "assign" and s["lhs"]["l"] == l and not s["lhs"]["p"] and s["rv"]["k"] == "use":
            p = op_place(s["rv"]["op"])
            if p and not p["p"] and p["l"] == src:
                return True
    return False


def discr_switches(body):
    """`_d = discriminant(P); switchInt(_d)` pairs: yields (block, place P, {value string: target}, otherwise)"""
    for bi, blk in enumerate(body.blocks):
        t = blk["t"]
        if t["k"] != "switch":
            continue
        p = op_place(t["op"])
        if p is None or p["p"]:
            continue
        for s in reversed(blk["s"]):
            if s["k"] == "assign" and s["lhs"]["l"] == p["l"] and not s["lhs"]["p"]:
                if s["rv"]["k"] == "discr":
                    yield bi, s["rv"]["place"], {v: tgt for v, tgt in t["targets"]}, t["otherwise"]
                break


def variant_edge_dominates(body, ev, block, source_pred, ty_prefix, value):
    """is `block` dominated by the edge of a match on a value of type `ty_prefix...` whose term satisfies
    source_pred, taken for discriminant `value` ("0" = first variant, e.g. Ok / Ready / None...)?"""
    from .gate import edge_dominates
    hits = []
    for sb, place, targets, otherwise in discr_switches(body):
        base_ty = body.local_ty(place["l"])
        if place["p"]:
            # `match (x as Err).0 { .. }`: the matched value is the Err payload of a Result local
            pr = place["p"]
            if len(pr) == 2 and isinstance(pr[0], dict) and pr[0].get("dc") == "Err" and isinstance(pr[1], dict) and pr[1].get("f") == 0 \
                    and base_ty.startswith("std::result::Result<") and (", " + ty_prefix) in base_ty:
                pass
            else:
                continue
        elif not base_ty.startswith(ty_prefix):
            continue
        term = ev.place(place, (sb, "T"))
        if not source_pred(term):
            continue
        tgt = targets.get(value)
        if tgt is None:
            # `otherwise` edge taken for the remaining variant
            others = set(targets.values())
            tgt = otherwise if otherwise not in others else None
        if tgt is not None and edge_dominates(body, sb, tgt, block):
            hits.append(sb)
    return hits


def follow_copies(body, local, limit=8):
    """follow single-definition plain copies back to the originating local"""
    l = local
    for _ in range(limit):
        ds = [d for d in body.defs.get(l, []) if not d[2]["p"]]
        if len(ds) == 1 and ds[0][3]["k"] == "use":
            p = op_place(ds[0][3]["op"])
            if p and not p["p"]:
                l = p["l"]
                continue
        break
    return l


def closure_use_sites(prog, body, closure_path):
    """blocks of `body` whose call terminator receives the closure `closure_path` (created in body) as an argument"""
    locs = set()
    for i, j, s in body.assigns():
        rv = s["rv"]
        if rv["k"] == "agg" and rv.get("ak", "").split(":", 1)[-1] == closure_path and not s["lhs"]["p"]:
            locs.add(s["lhs"]["l"])
    changed = True
    while changed:
        changed = False
        for i, j, s in body.assigns():
            rv = s["rv"]
            if rv["k"] in ("use", "ref") and not s["lhs"]["p"]:
                p = op_place(rv.get("op")) if rv["k"] == "use" else rv.get("place")
                if p is not None and not [e for e in p["p"] if e != "*"] and p["l"] in locs and s["lhs"]["l"] not in locs:
                    locs.add(s["lhs"]["l"])
                    changed = True
    out = []
    for bi, t in body.calls():
        for a in t["args"]:
            p = op_place(a)
            if p is not None and not p["p"] and p["l"] in locs:
                out.append((bi, t))
    return out


def call_sites_incl_closures(prog, body, callee):
    """(block, terminator) pairs in `body` at which `callee` is called: directly, or inside a closure created in `body` and
    handed to a call in that block (`iter.for_each(|x| callee(x))`)"""
    out = list(calls(body, callee))
    for cb in prog.children(body.root or body.path):
        if cb.path == body.path:
            continue
        if calls(cb, callee):
            out += closure_use_sites(prog, body, cb.path)
    return out


def forwarding_sites(prog, body, target, arg_idx):
    """call sites in `body` that pass a value on to `target`'s argument `arg_idx`: direct calls, and calls to a workspace helper
    (plain fn, one level) that hands one of its own parameters, unchanged, to `target` on the only call it makes to it.
    Returns (block, pseudo-terminator) pairs whose args[arg_idx] is the caller-side operand."""
    out = []
    for bi, t in calls(body, target):
        out.append((bi, t))
    for bi, t in body.calls():
        c = body.callee(t) or body.callee_decl(t) or ""
        hb = prog.bodies.get(c)
        if hb is None or c == target or getattr(hb, "kind", "") == "Closure":
            continue
        inner = calls(hb, target)
        if len(inner) != 1:
            continue
        ib, it = inner[0]
        p = op_place(it["args"][arg_idx]) if len(it["args"]) > arg_idx else None
        if p is None or p["p"]:
            continue
        src = follow_copies(hb, p["l"])
        if 1 <= src <= hb.argc and len(t["args"]) >= src:
            args = [None] * (arg_idx + 1)
            args[arg_idx] = t["args"][src - 1]
            out.append((bi, {"k": "call", "args": args, "line": t["line"], "f": t["f"], "dest": t["dest"], "target": t.get("target"), "via": c}))
    return out


def private_wrappers(prog, body, target):
    """workspace functions (not closures) that call `target` and whose every caller lies in `body`'s family: private helpers
    extracted from `body`"""
    root = body.root or body.path
    out = set()
    callers = prog.callers()
    for b2, bi in callers.get(target, []):
        w = b2.root or b2.path
        if w == root or w not in prog.bodies:
            continue
        cs = callers.get(w, [])
        if cs and all((c.root or c.path) == root for c, _ in cs):
            out.add(w)
    return out


def sites_via_helpers(prog, body, target):
    """(block, terminator) in `body`: direct calls to `target`, and calls to a private helper of `body` that calls it"""
    out = list(calls(body, target))
    ws = private_wrappers(prog, body, target)
    if ws:
        for bi, t in body.calls():
            c = body.callee(t) or body.callee_decl(t) or ""
            if c in ws:
                out.append((bi, t))
    return out


def root_of_ref(body, local, limit=10):
    """follow `_x = &mut y`, `_x = &mut (*y)`, `_x = copy/move y` back to the variable that is borrowed"""
    l = local
    for _ in range(limit):
        if body.locals[l].get("n") and l > body.argc:
            break                      # a named user variable: this is the thing that is borrowed
        ds = [d for d in body.defs.get(l, []) if not d[2]["p"]]
        if len(ds) != 1:
            break
        rv = ds[0][3]
        if rv["k"] == "use":
            p = op_place(rv["op"])
        elif rv["k"] in ("ref", "rawptr"):
            p = rv["place"]
        else:
            break
        if p is None or any(e != "*" for e in p["p"]):
            break
        l = p["l"]
    return l


def receiver_call_sites(prog, body, target, depth=0):
    """(block, receiver root local, line) for every call in `body` that invokes `target` on a receiver that is (a borrow of) a local of
    `body`: directly, or through a workspace helper that calls `target` on one of its own parameters (one or two levels)"""
    out = []
    for bi, t in calls(body, target):
        p = op_place(t["args"][0]) if t["args"] else None
        if p is not None and not [e for e in p["p"] if e != "*"]:
            out.append((bi, root_of_ref(body, p["l"]), t.get("line")))
    if depth >= 2:
        return out
    for bi, t in body.calls():
        c = body.callee(t) or body.callee_decl(t) or ""
        hb = prog.bodies.get(c)
        if hb is None or c == target or hb.path == body.path:
            continue
        for (_, rl, _) in receiver_call_sites(prog, hb, target, depth + 1):
            if 1 <= rl <= hb.argc and len(t["args"]) >= rl:
                p = op_place(t["args"][rl - 1])
                if p is not None and not [e for e in p["p"] if e != "*"]:
                    out.append((bi, root_of_ref(body, p["l"]), t.get("line")))
    return out


def try_edges(body, call_block):
    """For `call(..)?` return (switch block, Continue target, Break target), else None (await machinery is not followed)."""
    t = body.term(call_block)
    if t["k"] != "call" or t.get("target") is None:
        return None
    res_local = t["dest"]["l"]
    b = t["target"]
    seen = set()
    while b is not None and b not in seen:
        seen.add(b)
        tt = body.term(b)
        if tt["k"] == "call":
            c = tt["f"].get("fn") or ""
            if c.endswith("Try::branch"):
                p = op_place(tt["args"][0])
                if p and _copy_of(body, b, p["l"], res_local):
                    sb = tt["target"]
                    sw = body.term(sb)
                    if sw["k"] == "switch":
                        cont = brk = None
                        for v, tgt in sw["targets"]:
                            if v == "0":
                                cont = tgt
                            elif v == "1":
                                brk = tgt
                        if brk is None:
                            brk = sw["otherwise"]
                        if cont is not None:
                            return sb, cont, brk
                return None
            return None
        if tt["k"] == "goto":
            b = tt["target"]
            continue
        return None
    return None
