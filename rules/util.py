"""Small helpers shared by the property modules."""
from .facts import op_place, Inconclusive


def calls(body, *names, suffix=False, contains=False):
    """(block, terminator) of calls whose declared or resolved callee matches one of names"""
    out = []
    for bi, t in body.calls():
        for c in (t["f"].get("fn"), t["f"].get("res")):
            if not c:
                continue
            hit = False
            for n in names:
                if c == n or (suffix and c.endswith(n)) or (contains and n in c):
                    hit = True
            if hit:
                out.append((bi, t))
                break
    return out


def one_call(body, *names, suffix=False, contains=False):
    cs = calls(body, *names, suffix=suffix, contains=contains)
    if len(cs) != 1:
        raise Inconclusive("%s: expected exactly one call to %s, found %d" % (body.path, names, len(cs)))
    return cs[0]


def last_field(place):
    fs = [e for e in place["p"] if isinstance(e, dict) and "f" in e]
    return fs[-1] if fs else None


def field_stores(body, field, owner_sub=""):
    """assign statements whose destination's last projection is the named field"""
    out = []
    for i, j, s in body.assigns():
        f = last_field(s["lhs"])
        if f and f["n"] == field and owner_sub in f["o"] and s["lhs"]["p"] and s["lhs"]["p"][-1] is not None:
            # the field must be the final projection element (a store to the field itself)
            last = s["lhs"]["p"][-1]
            if isinstance(last, dict) and "f" in last and last["n"] == field:
                out.append((i, j, s))
    # a call may also write its result straight into the field
    for bi, t in body.calls():
        f = last_field(t["dest"])
        if f and f["n"] == field and owner_sub in f["o"]:
            last = t["dest"]["p"][-1]
            if isinstance(last, dict) and "f" in last and last["n"] == field:
                out.append((bi, "T", {"lhs": t["dest"], "rv": {"k": "call", "t": t, "b": bi}, "line": t["line"], "exp": t.get("exp", "")}))
    return out


def ok_return_blocks(body):
    """blocks that assign `Result::Ok(..)` to the return place"""
    out = []
    for i, j, s in body.assigns():
        if s["lhs"]["l"] == 0 and not s["lhs"]["p"] and s["rv"]["k"] == "agg" and s["rv"]["ak"].endswith("Result::Ok"):
            out.append((i, s))
    return out


def must_pass(body, targets, through, start=0):
    """every path from `start` to any block in targets passes a block in `through`"""
    r = body.reach_from([start], avoid=frozenset(through))
    return [t for t in targets if t in r and t not in through]


def try_continue_block(body, call_block):
    """For `x = call(..)?` return the block entered on the Continue edge of the `?`, else None.
    Follows: call -> [await machinery is NOT followed] Try::branch(result) -> discriminant switch."""
    t = body.term(call_block)
    if t["k"] != "call" or t.get("target") is None:
        return None
    res_local = t["dest"]["l"]
    b = t["target"]
    seen = set()
    while b is not None and b not in seen:
        seen.add(b)
        tt = body.term(b)
        if tt["k"] == "call":
            c = tt["f"].get("fn") or ""
            if c.endswith("Try::branch"):
                p = op_place(tt["args"][0])
                if p and _copy_of(body, b, p["l"], res_local):
                    sw = body.term(tt["target"])
                    if sw["k"] == "switch":
                        for v, tgt in sw["targets"]:
                            if v == "0":
                                return tgt
                return None
            return None
        if tt["k"] == "goto":
            b = tt["target"]
            continue
        return None
    return None


def _copy_of(body, block, l, src):
    if l == src:
        return True
    for s in body.stmts(block):
        if s["k"] == "assign" and s["lhs"]["l"] == l and not s["lhs"]["p"] and s["rv"]["k"] == "use":
            p = op_place(s["rv"]["op"])
            if p and not p["p"] and p["l"] == src:
                return True
    return False


def discr_switches(body):
    """`_d = discriminant(P); switchInt(_d)` pairs: yields (block, place P, {value string: target}, otherwise)"""
    for bi, blk in enumerate(body.blocks):
        t = blk["t"]
        if t["k"] != "switch":
            continue
        p = op_place(t["op"])
        if p is None or p["p"]:
            continue
        for s in reversed(blk["s"]):
            if s["k"] == "assign" and s["lhs"]["l"] == p["l"] and not s["lhs"]["p"]:
                if s["rv"]["k"] == "discr":
                    yield bi, s["rv"]["place"], {v: tgt for v, tgt in t["targets"]}, t["otherwise"]
                break


def variant_edge_dominates(body, ev, block, source_pred, ty_prefix, value):
    """is `block` dominated by the edge of a match on a value of type `ty_prefix...` whose term satisfies
    source_pred, taken for discriminant `value` ("0" = first variant, e.g. Ok / Ready / None...)?"""
    from .gate import edge_dominates
    hits = []
    for sb, place, targets, otherwise in discr_switches(body):
        base_ty = body.local_ty(place["l"])
        if place["p"]:
            # `match (x as Err).0 { .. }`: the matched value is the Err payload of a Result local
            pr = place["p"]
            if len(pr) == 2 and isinstance(pr[0], dict) and pr[0].get("dc") == "Err" and isinstance(pr[1], dict) and pr[1].get("f") == 0 \
                    and base_ty.startswith("std::result::Result<") and (", " + ty_prefix) in base_ty:
                pass
            else:
                continue
        elif not base_ty.startswith(ty_prefix):
            continue
        term = ev.place(place, (sb, "T"))
        if not source_pred(term):
            continue
        tgt = targets.get(value)
        if tgt is None:
            # `otherwise` edge taken for the remaining variant
            others = set(targets.values())
            tgt = otherwise if otherwise not in others else None
        if tgt is not None and edge_dominates(body, sb, tgt, block):
            hits.append(sb)
    return hits


def follow_copies(body, local, limit=8):
    """follow single-definition plain copies back to the originating local"""
    l = local
    for _ in range(limit):
        ds = [d for d in body.defs.get(l, []) if not d[2]["p"]]
        if len(ds) == 1 and ds[0][3]["k"] == "use":
            p = op_place(ds[0][3]["op"])
            if p and not p["p"]:
                l = p["l"]
                continue
        break
    return l
