"""GRAMMAR (DESIGN 4.8): the combinator tree of each command parser (from the HIR) as a small
grammar AST, with combine-4.6 commit semantics, keyword FIRST/FOLLOW analysis and an
interpreter over concrete token sequences (used on the documented examples).

Nodes:  ('seq', [n..])  ('alt', [n..])  ('opt', n)  ('many', n)  ('many1', n)  ('attempt', n)
        ('kw', 'KEYWORD')  ('prim', fn_name)  ('andthen', n, fn_name)  ('eof',)  ('empty',)
        ('fn', fn_name, n)  ('unknown', what)
`fn_name` is the parser.rs function in which a satisfy_map / and_then closure is written; the
semantics of those closures (which strings they accept) are frozen in LEAF_ACCEPT below, read
once from parser.rs. Everything else is derived from the tree on every run."""
import re
import uuid as _uuid

TRANSPARENT = ("map", "expected", "message", "silent", "map_input", "flat_map")
P = "sierradb_server::parser::"


def _is_u(s, bits):
    return s.isdigit() and int(s) < 2 ** bits


# acceptance of the token by the satisfy_map closure written in parser.rs::<name>
PRIM_ACCEPT = {
    "string": lambda s: True,
    "data": lambda s: True,
    "number_u64": lambda s: _is_u(s, 64),
    "number_u32": lambda s: _is_u(s, 32),
    "number_i64": lambda s: bool(re.fullmatch(r"-?\d+", s)) and -2 ** 63 <= int(s) < 2 ** 63,
    "partition_id": lambda s: _is_u(s, 16),
    "partition_ids": lambda s: all(_is_u(x.strip(), 16) for x in s.split(",")) and s != "",
    "partition_id_sequence": lambda s: "=" in s and _is_u(s.split("=", 1)[0], 16) and _is_u(s.split("=", 1)[1], 64),
}
# acceptance by the and_then closure written in parser.rs::<name> (applied to an already consumed token)
ANDTHEN_ACCEPT = {
    "stream_id": lambda s: 0 < len(s) <= 64,
    "uuid": lambda s: _try_uuid(s),
    "stream_id_version": lambda s: "=" in s and 0 < len(s.split("=", 1)[0]) <= 64 and _is_u(s.split("=", 1)[1], 64),
    "number_u64_min": lambda s: _is_u(s, 64) and int(s) >= 1,
    "partition_id_sequence": lambda s: "=" in s and _is_u(s.split("=", 1)[0], 16) and _is_u(s.split("=", 1)[1], 64),
}


def _try_uuid(s):
    try:
        _uuid.UUID(s.strip())
        return True
    except ValueError:
        return False


# predicates derived from the MIR of and_then closures that are not in the frozen table (filled by the caller): closure def path -> accept(str)
DERIVED_ACCEPT = {}


def andthen_accept(n):
    """acceptance predicate of the and_then closure of node n, or None if it is unknown"""
    if n[2] in ANDTHEN_ACCEPT and (len(n) < 4 or n[3] is None or n[3].startswith(P + n[2] + "::")):
        return ANDTHEN_ACCEPT[n[2]]
    if len(n) >= 4 and n[3] in DERIVED_ACCEPT:
        return DERIVED_ACCEPT[n[3]]
    if n[2] in ANDTHEN_ACCEPT:
        return ANDTHEN_ACCEPT[n[2]]
    return None


class Builder:
    def __init__(self, hir):
        self.hir = hir
        self.memo = {}
        self.stack = []

    def fn(self, path):
        if path in self.memo:
            return self.memo[path]
        if path in self.stack or path not in self.hir:
            return ("unknown", path)
        self.stack.append(path)
        name = path.rsplit("::", 1)[-1]
        h = self.hir[path]
        node = self.expr(h["body"], {}, name, h.get("params", []))
        self.stack.pop()
        node = ("fn", name, node)
        self.memo[path] = node
        return node

    def expr(self, n, env, fname, params=()):
        if n is None:
            return ("unknown", "none")
        k = n.get("k")
        if k == "block":
            env = dict(env)
            for s in n["stmts"]:
                if s.get("k") == "let" and s.get("init") is not None:
                    env[s["pat"]] = self.expr(s["init"], env, fname)
            return self.expr(n["tail"], env, fname) if n.get("tail") else ("unknown", "no-tail")
        if k == "path":
            p = n["p"]
            if p.startswith("local:"):
                return env.get(p[6:], ("unknown", p))
            return ("unknown", p)
        if k == "tuple":
            return ("seq", [self.expr(a, env, fname) for a in n["args"]])
        if k in ("ref",):
            return self.expr(n["a"], env, fname)
        if k == "call":
            f = n.get("f") or ""
            args = n["args"]
            if f == P + "keyword" and args and args[0].get("k") == "lit":
                return ("kw", args[0]["v"])
            if f.endswith("combine::satisfy_map") or f == "combine::satisfy_map" or f.endswith("::satisfy_map") or f.endswith("combine::satisfy") or f.endswith("::token") or f.endswith("::any"):
                return ("prim", fname)
            last = f.rsplit("::", 1)[-1]
            if f.startswith("combine::") or f.startswith("combine::parser::"):
                if last == "optional":
                    return ("opt", self.expr(args[0], env, fname))
                if last in ("many", "skip_many"):
                    return ("many", self.expr(args[0], env, fname))
                if last in ("many1", "skip_many1"):
                    return ("many1", self.expr(args[0], env, fname))
                if last in ("attempt", "look_ahead"):
                    return ("attempt", self.expr(args[0], env, fname))
                if last == "choice":
                    inner = self.expr(args[0], env, fname)
                    return ("alt", inner[1]) if inner[0] == "seq" else ("alt", [inner])
                if last == "or":
                    return ("alt", [self.expr(a, env, fname) for a in args])
                if last == "not_followed_by":
                    return ("not", self.expr(args[0], env, fname))
                if last == "eof":
                    return ("eof",)
                if last in ("value", "produce"):
                    return ("empty",)
                if last in ("sep_by", "sep_by1", "sep_end_by", "sep_end_by1"):
                    return ("many" if last.startswith("sep_by") and not last.endswith("1") else "many1",
                            ("seq", [self.expr(args[0], env, fname), ("opt", self.expr(args[1], env, fname))]))
                return ("unknown", f)
            if f in self.hir and (f.startswith("sierradb_server::parser::") or f.startswith("sierradb_server::request::")):
                return self.fn(f)
            return ("unknown", f or "expr-call")
        if k == "mcall":
            m = n["m"]
            recv = self.expr(n["recv"], env, fname)
            if m in TRANSPARENT:
                return recv
            if m in ("with", "skip", "and"):
                return ("seq", [recv, self.expr(n["args"][0], env, fname)])
            if m == "or":
                return ("alt", [recv, self.expr(n["args"][0], env, fname)])
            if m in ("and_then", "then", "then_partial"):
                a0 = n["args"][0] if n.get("args") else None
                cdef = a0.get("def") if isinstance(a0, dict) and a0.get("k") == "closure" else None
                return ("andthen", recv, fname, cdef)
            return ("unknown", "." + m)
        if k == "closure":
            return ("unknown", "closure")
        return ("unknown", k or "?")


def strip_fn(n):
    while n[0] == "fn":
        n = n[2]
    return n


def single_token(n):
    n = strip_fn(n)
    return n[0] in ("prim", "kw") or (n[0] == "andthen" and single_token(n[1]))


def flatten(n):
    """normalise nested seq/alt"""
    k = n[0]
    if k == "fn":
        return ("fn", n[1], flatten(n[2]))
    if k in ("seq", "alt"):
        out = []
        for c in n[1]:
            c = flatten(c)
            if c[0] == k:
                out.extend(c[1])
            else:
                out.append(c)
        return (k, out)
    if k in ("opt", "many", "many1", "attempt", "not"):
        return (k, flatten(n[1]))
    if k == "andthen":
        return ("andthen", flatten(n[1]), n[2]) + tuple(n[3:])
    return n


def nullable(n):
    k = n[0]
    if k == "fn":
        return nullable(n[2])
    if k in ("opt", "many", "empty", "eof", "not"):
        return True
    if k in ("many1", "attempt", "andthen"):
        return nullable(n[1])
    if k == "seq":
        return all(nullable(c) for c in n[1])
    if k == "alt":
        return any(nullable(c) for c in n[1])
    return False


def first_kws(n):
    """keywords that can be the first token consumed by n (through keyword leaves)"""
    k = n[0]
    if k == "fn":
        return first_kws(n[2])
    if k == "kw":
        return {n[1]}
    if k in ("opt", "many", "many1", "attempt", "andthen"):
        return first_kws(n[1])
    if k == "alt":
        s = set()
        for c in n[1]:
            s |= first_kws(c)
        return s
    if k == "seq":
        s = set()
        for c in n[1]:
            s |= first_kws(c)
            if not nullable(c):
                break
        return s
    return set()


def first_leaves(n, fn=None):
    """non-keyword leaves that can consume the first token: list of (kind, fn_name, commit_fn or None)
    kind 'prim' = satisfy_map (fails without consuming), commit_fn set when an and_then closure follows the consumed token"""
    k = n[0]
    if k == "fn":
        return first_leaves(n[2], n[1])
    if k == "prim":
        return [("prim", n[1], None)]
    if k == "unknown":
        return [("unknown", n[1], None)]
    if k == "andthen":
        inner = first_leaves(n[1], fn)
        if not single_token(n[1]):
            return inner       # and_then over a whole sequence: applied after all of it, not to the first token
        return [(kind, f, n[2] if c is None else c) for (kind, f, c) in inner]
    if k in ("opt", "many", "many1", "attempt"):
        return first_leaves(n[1], fn)
    if k == "alt":
        out = []
        for c in n[1]:
            out += first_leaves(c, fn)
        return out
    if k == "seq":
        out = []
        for c in n[1]:
            out += first_leaves(c, fn)
            if not nullable(c):
                break
        return out
    return []


def leaf_accepts_keyword(kind, f, kw):
    """can the satisfy_map closure of parser.rs::<f> accept the keyword token?"""
    if kind == "unknown":
        return True
    acc = PRIM_ACCEPT.get(f)
    if acc is None:
        return True   # unknown leaf: any string, reported only if that makes a rule fail
    return acc(kw) or acc(kw.lower())


def analyse(n, follow, in_attempt, findings, ctx):
    """walk the grammar; `follow` = keywords that may legitimately come right after n.
    findings: list of (rule, keyword, leaf fn, commit fn, context path)"""
    k = n[0]
    if k == "fn":
        analyse(n[2], follow, in_attempt, findings, ctx + [n[1]])
        return
    if k == "seq":
        items = n[1]
        # follow of item i = FIRST of the rest (+ follow if the rest is nullable)
        for i, c in enumerate(items):
            f = set()
            rest_nullable = True
            for d in items[i + 1:]:
                f |= first_kws(d)
                if not nullable(d):
                    rest_nullable = False
                    break
            if rest_nullable:
                f |= follow
            analyse(c, f, in_attempt, findings, ctx)
        return
    if k == "alt":
        for c in n[1]:
            analyse(c, follow, in_attempt, findings, ctx)
        return
    if k == "attempt":
        analyse(n[1], follow, True, findings, ctx)
        return
    if k == "andthen":
        analyse(n[1], follow, in_attempt, findings, ctx)
        return
    if k == "not":
        return
    if k in ("opt", "many", "many1"):
        body = n[1]
        # a keyword that may follow must neither be accepted as a value by the body (G1) nor be consumed and then
        # rejected by it (G2): decided by running the body (combine semantics) on `kw <any> <any> <any>`
        for kw in sorted(follow) + sorted(k2.lower() for k2 in follow if k2.lower() != k2):     # keywords are matched in any case
            r = WildRun([("lit", kw), ("wild",), ("wild",), ("wild",)])
            ok, cons, p2 = r.parse(body, 0)
            who = r.first_reader
            if who is None or who[0] == "kw":
                continue      # nothing read the keyword as a value (the body starts with that keyword itself, or refused it without consuming)
            if ok and p2 > 0:
                findings.append(("G1", kw, who[1], r.first_commit, "/".join(ctx), k))
            elif not ok and cons and not in_attempt:
                findings.append(("G2", kw, who[1], r.failed_in or who[1], "/".join(ctx), k))
        inner_follow = set(follow)
        if k in ("many", "many1"):
            inner_follow |= first_kws(body)
        analyse(body, inner_follow, in_attempt, findings, ctx)
        return


# ------------------------------------------------------------------ concrete interpreter
class Run:
    def __init__(self, tokens):
        self.toks = tokens
        self.consumed_by = {}   # token index -> ('kw', K) | ('leaf', fn)
        self.first_reader = None  # who read token 0 (even if a later and_then rejected it)
        self.first_commit = None  # the and_then that accepted token 0
        self.failed_in = None     # the and_then closure that rejected a consumed token

    def _read(self, pos, who):
        self.consumed_by[pos] = who
        if pos == 0 and self.first_reader is None:
            self.first_reader = who

    def parse(self, n, pos):
        """returns (ok, consumed, pos)"""
        k = n[0]
        if k == "fn":
            return self.parse(n[2], pos)
        if k == "empty":
            return True, False, pos
        if k == "eof":
            return (pos == len(self.toks)), False, pos
        if k == "kw":
            if pos < len(self.toks) and self.toks[pos] is not None and self.toks[pos].upper() == n[1]:
                self._read(pos, ("kw", n[1]))
                return True, True, pos + 1
            return False, False, pos
        if k == "prim":
            if pos < len(self.toks):
                acc = PRIM_ACCEPT.get(n[1], lambda s: True)
                if acc(self.toks[pos]):
                    self._read(pos, ("leaf", n[1]))
                    return True, True, pos + 1
            return False, False, pos
        if k == "unknown":
            if pos < len(self.toks):
                self._read(pos, ("leaf", "?" + n[1]))
                return True, True, pos + 1
            return False, False, pos
        if k == "not":
            saved = (dict(self.consumed_by), self.first_reader, self.first_commit, self.failed_in)
            ok, c, p2 = self.parse(n[1], pos)
            self.consumed_by, self.first_reader, self.first_commit, self.failed_in = saved
            return (not ok), False, pos
        if k == "andthen":
            ok, c, p2 = self.parse(n[1], pos)
            if not ok:
                return False, c, pos
            acc = (andthen_accept(n) or (lambda s: True)) if single_token(n[1]) else (lambda s: True)
            if p2 > pos and not acc(self.toks[p2 - 1]):
                self.failed_in = n[2]
                return False, c, pos       # committed failure when c is True
            if p2 > pos and single_token(n[1]):
                self.consumed_by[p2 - 1] = ("leaf", n[2])
                if p2 - 1 == 0:
                    self.first_commit = n[2]
            return True, c, p2
        if k == "seq":
            cons = False
            p = pos
            for c in n[1]:
                ok, cc, p2 = self.parse(c, p)
                cons = cons or cc
                if not ok:
                    return False, cons, pos
                p = p2
            return True, cons, p
        if k == "alt":
            for c in n[1]:
                ok, cc, p2 = self.parse(c, pos)
                if ok:
                    return True, cc, p2
                if cc:
                    return False, True, pos
            return False, False, pos
        if k == "opt":
            ok, cc, p2 = self.parse(n[1], pos)
            if ok:
                return True, cc, p2
            if cc:
                return False, True, pos
            return True, False, pos
        if k in ("many", "many1"):
            p = pos
            cons = False
            count = 0
            while True:
                ok, cc, p2 = self.parse(n[1], p)
                if ok:
                    if p2 == p:
                        break
                    cons = cons or cc
                    p = p2
                    count += 1
                    continue
                if cc:
                    return False, True, pos
                break
            if k == "many1" and count == 0:
                return False, cons, pos
            return True, cons, p
        if k == "attempt":
            ok, cc, p2 = self.parse(n[1], pos)
            if ok:
                return True, cc, p2
            return False, False, pos
        return False, False, pos


def all_keywords(n, acc=None):
    acc = set() if acc is None else acc
    k = n[0]
    if k == "kw":
        acc.add(n[1])
    elif k == "fn":
        all_keywords(n[2], acc)
    elif k in ("seq", "alt"):
        for c in n[1]:
            all_keywords(c, acc)
    elif k in ("opt", "many", "many1", "attempt", "andthen", "not"):
        all_keywords(n[1], acc)
    return acc


def unknowns(n, acc=None):
    acc = [] if acc is None else acc
    k = n[0]
    if k == "unknown":
        acc.append(n[1])
    elif k == "fn":
        unknowns(n[2], acc)
    elif k in ("seq", "alt"):
        for c in n[1]:
            unknowns(c, acc)
    elif k in ("opt", "many", "many1", "attempt", "andthen", "not"):
        unknowns(n[1], acc)
    return acc


def render(n, d=0):
    k = n[0]
    if k == "fn":
        return "%s:%s" % (n[1], render(n[2], d))
    if k == "kw":
        return '"%s"' % n[1]
    if k == "prim":
        return "<%s>" % n[1]
    if k == "andthen":
        return "%s!%s" % (render(n[1]), n[2])
    if k in ("seq", "alt"):
        return ("(%s)" if k == "seq" else "[%s]") % (" " if k == "seq" else " | ").join(render(c) for c in n[1])
    if k in ("opt", "many", "many1", "attempt", "not"):
        return "%s(%s)" % ({"opt": "opt", "many": "many", "many1": "many1", "attempt": "try", "not": "not"}[k], render(n[1]))
    return k if k != "unknown" else "?%s" % n[1]


# ------------------------------------------------------------------ client emission (G4)
INT_MAX = {"u8": 2 ** 8 - 1, "u16": 2 ** 16 - 1, "u32": 2 ** 32 - 1, "u64": 2 ** 64 - 1, "usize": 2 ** 64 - 1,
           "i8": 2 ** 7 - 1, "i16": 2 ** 15 - 1, "i32": 2 ** 31 - 1, "i64": 2 ** 63 - 1, "isize": 2 ** 63 - 1}
SAMPLE_UUID = "550e8400-e29b-41d4-a716-446655440000"
END_CALLS = ("query_async", "query", "exec", "exec_async", "add_command", "mem::take", "get_packed_command")


def _strip_ref(ty):
    ty = ty.strip()
    while ty.startswith("&"):
        ty = ty[1:].strip()
        if ty.startswith("'"):
            ty = ty.split(" ", 1)[1] if " " in ty else ty
        if ty.startswith("mut "):
            ty = ty[4:].strip()
    return ty


class Emitter:
    """enumerates the token sequences a client function can pass to redis::cmd(..).arg(..)...
    tokens: ('lit', text) | ('uuid',) | ('num', ty) | ('wild', why)"""

    def __init__(self, prog, max_paths=4000):
        self.prog = prog
        self.max_paths = max_paths
        self.impls = {}    # ADT type name -> body path of its write_redis_args
        for p in prog.bodies:
            if "as redis::ToRedisArgs>::write_redis_args" in p and "{closure" not in p:
                ty = p.split("<", 1)[1].split(" as redis::ToRedisArgs")[0]
                self.impls[ty.split("<")[0]] = p
        self._exp = {}
        self.notes = []

    # --- classification of one argument operand
    def classify(self, body, op, depth=0):
        """returns a list of alternative token lists"""
        if op is None or depth > 8:
            return [[("wild", "depth")]]
        if "c" in op:
            txt = op["c"]
            m = re.search(r'b?"((?:[^"\\]|\\.)*)"', txt)
            if m:
                return [[("lit", m.group(1))]]
            if "v" in op:
                return [[("lit", str(op["v"]))]]
            return [[("wild", "const " + txt[:20])]]
        p = op_place_(op)
        ty = _strip_ref(body.local_ty(p["l"])) if not p["p"] or all(e == "*" for e in p["p"]) else None
        if ty is None:
            # a projection (field of self etc.): type unknown here -> look at the field's use through a temp; treat as caller data
            return [[("wild", "field")]]
        return self.classify_local(body, p["l"], ty, depth)

    def classify_local(self, body, local, ty, depth):
        if ty in INT_MAX:
            return [[("num", ty)]]
        if ty == "uuid::Uuid":
            return [[("uuid",)]]
        base = ty.split("<")[0]
        if base in self.impls:
            return self.expand(self.impls[base])
        m = re.match(r"^\[(.+?)(; \d+)?\]$", ty) or re.match(r"^std::vec::Vec<(.+)>$", ty)
        if m:
            inner = _strip_ref(m.group(1))
            if inner == "u8":
                return self.chase(body, local, depth)
            one = self.classify_type(inner)
            return [a for a in one] + [a + b for a in one[:3] + one[-1:] for b in one[:2] + one[-1:]]
        if ty in ("std::string::String", "str", "String"):
            return self.chase(body, local, depth)
        return [[("wild", ty[:30])]]

    def classify_type(self, ty):
        if ty in INT_MAX:
            return [[("num", ty)]]
        if ty == "uuid::Uuid":
            return [[("uuid",)]]
        base = ty.split("<")[0]
        if base in self.impls:
            return self.expand(self.impls[base])
        return [[("wild", ty[:30])]]

    def chase(self, body, local, depth):
        """follow the definition of a String / &[u8] / &str local"""
        defs = body.defs.get(local, [])
        if len(defs) != 1:
            return [[("wild", "multi-def" if defs else "param")]]
        bi, si, lhs, rv = defs[0]
        if lhs["p"]:
            return [[("wild", "partial")]]
        k = rv["k"]
        if k == "call":
            t = rv["t"]
            c = body.callee_decl(t) or ""
            last = c.rsplit("::", 1)[-1]
            if last in ("to_string", "as_bytes", "as_str", "as_ref", "deref", "borrow", "clone", "into", "to_owned", "as_slice"):
                return self.classify(body, t["args"][0], depth + 1)
            if last == "format" or last == "must_use":
                return [[("wild", "format!")]]
            return [[("wild", last)]]
        if k in ("use", "cast"):
            return self.classify(body, rv["op"], depth + 1)
        if k == "ref":
            pl = rv["place"]
            if all(e == "*" for e in pl["p"]):
                return self.classify(body, {"cp": pl}, depth + 1)
            return [[("wild", "field")]]
        return [[("wild", k)]]

    # --- expansion of a ToRedisArgs impl
    def expand(self, path):
        if path in self._exp:
            return self._exp[path]
        self._exp[path] = [[("wild", "recursive")]]
        body = self.prog.bodies[path]
        outs = self.paths(body, 0, [], stop_at_end=False)
        self._exp[path] = outs
        return outs

    # --- path enumeration
    def paths(self, body, start_block, start_tokens, stop_at_end=True, start_after_call=False):
        results = []
        seen = set()
        work = [(start_block, tuple(start_tokens), (), start_after_call)]
        n = 0
        nexts = self._next_switches(body)
        while work:
            n += 1
            if n > 200000 or len(results) > self.max_paths:
                self.notes.append("path cap reached in %s" % body.path)
                break
            bi, toks, visits, skip = work.pop()
            cnt = visits.count(bi)
            if cnt >= 3:
                continue
            visits = visits + (bi,)
            t = body.blocks[bi]["t"]
            k = t["k"]
            alts = [toks]
            ended = False
            if k == "call" and not skip:
                c = body.callee_decl(t) or ""
                last = c.rsplit("::", 1)[-1]
                if c in ("redis::Cmd::arg", "redis::cmd::Cmd::arg") or last == "write_arg" or (last == "arg" and "redis" in c):
                    alts = [toks + tuple(a) for a in self.classify(body, t["args"][1])]
                elif last == "write_redis_args":
                    alts = [toks + tuple(a) for a in self.classify(body, t["args"][0])]
                elif c in ("redis::cmd", "redis::cmd::cmd") and stop_at_end:
                    ended = True
                elif stop_at_end and any(c.endswith(e) for e in END_CALLS):
                    ended = True
            if k == "return" or ended:
                for a in alts:
                    if a not in seen:
                        seen.add(a)
                        results.append(list(a))
                continue
            succs = []
            if k == "switch":
                tg = [x[1] for x in t["targets"]] + [t["otherwise"]]
                if bi in nexts:
                    some, none = nexts[bi]
                    tg = [some] if cnt == 0 else ([some, none] if cnt == 1 else [none])
                succs = tg
            elif k in ("goto", "drop", "assert", "call", "yield", "falseedge"):
                if t.get("target") is not None:
                    succs = [t["target"]]
            for s in dict.fromkeys(succs):
                if s is None:
                    continue
                for a in alts:
                    work.append((s, a, visits, False))
        return results

    def _next_switches(self, body):
        """switch blocks deciding on the result of Iterator::next: block -> (some target, none target)"""
        out = {}
        for bi, blk in enumerate(body.blocks):
            t = blk["t"]
            if t["k"] != "switch":
                continue
            p = op_place_(t["op"])
            if p is None:
                continue
            # discriminant of a local assigned from a `next` call
            src = None
            for (dbi, dsi, lhs, rv) in body.defs.get(p["l"], []):
                if rv["k"] == "discr":
                    src = rv["place"]["l"]
            if src is None:
                continue
            is_next = any(rv["k"] == "call" and (body.callee_decl(rv["t"]) or "").endswith("Iterator::next")
                          for (_, _, _, rv) in body.defs.get(src, []))
            if not is_next:
                continue
            some = none = None
            for val, tg in t["targets"]:
                if int(val) == 1:
                    some = tg
                elif int(val) == 0:
                    none = tg
            if some is None or none is None:
                other = t["otherwise"]
                some = some if some is not None else other
                none = none if none is not None else other
            out[bi] = (some, none)
        return out

    def commands(self, body):
        """every token sequence starting at a redis::cmd(<literal>) call in this body"""
        out = []
        for bi, t in body.calls():
            c = body.callee_decl(t) or ""
            if c in ("redis::cmd", "redis::cmd::cmd"):
                name = self.classify(body, t["args"][0])[0]
                if t.get("target") is None:
                    continue
                for toks in self.paths(body, t["target"], name):
                    out.append((t.get("line"), toks))
        return out


def op_place_(op):
    if op is None:
        return None
    return op.get("cp") or op.get("mv")


class WildRun(Run):
    """Run over client tokens: ('lit', s) concrete; ('uuid',) / ('num', ty) concrete samples; ('wild',) matches any
    value leaf (existentially) but never a keyword leaf."""

    def __init__(self, toks):
        self.kinds = toks
        conc = []
        for t in toks:
            if t[0] == "lit":
                conc.append(t[1])
            elif t[0] == "uuid":
                conc.append(SAMPLE_UUID)
            elif t[0] == "num":
                conc.append(str(INT_MAX[t[1]]) if t[1] in ("u16", "u8") else "1")
            else:
                conc.append(None)
        Run.__init__(self, conc)

    def parse(self, n, pos):
        k = n[0]
        if pos < len(self.toks) and self.toks[pos] is None:
            if k == "kw":
                return False, False, pos
            if k in ("prim", "unknown"):
                self._read(pos, ("leaf", n[1]))
                return True, True, pos + 1
        if k == "andthen":
            ok, c, p2 = self.parse(n[1], pos)
            if not ok:
                return False, c, pos
            if not single_token(n[1]):
                return True, c, p2
            if p2 > pos and self.toks[p2 - 1] is None:
                self.consumed_by[p2 - 1] = ("leaf", n[2])
                return True, c, p2
            acc = andthen_accept(n) or (lambda s: True)
            if p2 > pos and not acc(self.toks[p2 - 1]):
                self.failed_in = n[2]
                return False, c, pos
            if p2 > pos:
                self.consumed_by[p2 - 1] = ("leaf", n[2])
                if p2 - 1 == 0:
                    self.first_commit = n[2]
            return True, c, p2
        return Run.parse(self, n, pos)
