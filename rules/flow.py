"""Symbolic value terms over mir_built bodies (flow-insensitive may-origins with a
reachability filter), upvar resolution into parents, and term utilities.

Terms are tuples:
  ('const', text, int|None, ty)        ('fnitem', path)
  ('param', idx, name)                 ('upvar', name, closure_path)
  ('call', callee, args, block, body_path)
  ('field', base, name, owner)         ('variant', base, name)
  ('index', base, idx)                 ('discr', base)
  ('bin', op, a, b)  ('un', op, a)     ('cast', a, ty)
  ('agg', kind, ops, fields)
  ('phi', alts)                        ('unknown', why) ('cycle',)
References and dereferences are transparent (a value and a borrow of it are the same term).
"""
from .facts import op_place, place_key, const_int

MAX_DEPTH = 40


class Ev:
    def __init__(self, prog, body):
        self.prog = prog
        self.body = body
        self.memo = {}
        self.active = set()
        self._reach = {}

    # --- reachability filter: can the definition at (bi, si) reach the use at (bu, su)?
    def _reaches(self, bi, si, bu, su):
        if bu is None:
            return True
        if bi == bu:
            if si == "T":
                # call result is defined at the end of the block: only via a cycle
                pass
            elif su == "T" or (isinstance(su, int) and si < su):
                return True
        r = self._reach.get(bi)
        if r is None:
            r = self.body.reach_after([bi])
            self._reach[bi] = r
        return bu in r

    def _pos_dom(self, d1, d2):
        """does program point d1=(block, idx) strictly precede d2 on every path to d2?"""
        (b1, i1), (b2, i2) = d1, d2
        if b1 == b2:
            if i1 == "T":
                return False
            if i2 == "T":
                return True
            return i1 < i2
        return self.body.dominates(b1, b2)

    def operand(self, op, at=None, depth=0):
        if op is None:
            return ("unknown", "none")
        if "c" in op:
            if "fn" in op:
                return ("fnitem", op.get("res") or op["fn"])
            v = const_int(op)
            if v is None and "named" in op:
                v = self.prog.consts.get(op["named"])
            return ("const", op["c"], v, op.get("ty", ""))
        return self.place(op_place(op), at, depth)

    def place(self, p, at=None, depth=0):
        return self._project(p["l"], list(p["p"]), at, depth)

    def _project(self, local, proj, at, depth):
        """value of local.proj read at `at` (block, stmt index | 'T' | None)"""
        body = self.body
        if depth > MAX_DEPTH:
            return ("unknown", "depth")
        key = (local, place_key({"l": 0, "p": proj}), at[0] if at else None)
        if key in self.memo:
            return self.memo[key]
        if key in self.active:
            return ("cycle",)
        self.active.add(key)
        try:
            res = self._project_inner(local, proj, at, depth)
        finally:
            self.active.discard(key)
        self.memo[key] = res
        return res

    def _apply(self, base, proj):
        for e in proj:
            if e == "*" or isinstance(e, str):
                continue
            if "f" in e:
                if base[0] == "agg" and e["f"] < len(base[2]) and not base[1].startswith("adt:") or (
                        base[0] == "agg" and base[1].startswith("adt:") and e["n"] in base[3]):
                    if base[1].startswith("adt:"):
                        base = base[2][base[3].index(e["n"])]
                    else:
                        base = base[2][e["f"]]
                elif base[0] == "param" and base[1] == 1 and self.body.kind == "Closure" and e["o"] == self.body.path:
                    base = ("upvar", e["n"], self.body.path)
                else:
                    base = ("field", base, e["n"], e["o"])
            elif "dc" in e:
                base = ("variant", base, e["dc"])
            elif "ix" in e:
                base = ("index", base, ("local", e["ix"]))
            elif "cix" in e:
                base = ("index", base, ("const", str(e["cix"]), e["cix"], "usize"))
            elif "sub" in e:
                base = ("index", base, ("const", "sub", None, ""))
        return base

    def _project_inner(self, local, proj, at, depth):
        body = self.body
        # parameters
        if 1 <= local <= body.argc:
            defs = body.defs.get(local, [])
            if not defs:
                base = ("param", local, body.local_name(local))
                return self._apply(base, proj)
        defs = body.defs.get(local, [])
        alts = []
        want = place_key({"l": 0, "p": proj})[1:]
        # kill analysis for whole-local definitions: D1 is dead at the use if another whole-local
        # definition D2 with  D1 dom D2  and  D2 dom use  exists (every path D1 -> use passes D2)
        killed = set()
        entry_killed = False
        if at is not None:
            whole = [(bi, si) for (bi, si, lhs, rv) in defs if not lhs["p"]]
            doms_use = [d for d in whole if self._pos_dom(d, at)]
            if doms_use:
                entry_killed = True
                for d1 in whole:
                    for d2 in doms_use:
                        if d1 == d2:
                            continue
                        if d1[0] == d2[0]:
                            if self._pos_dom(d1, d2):
                                killed.add(d1)
                        elif at[0] not in body.reach_after([d1[0]], avoid=frozenset([d2[0]])) and d1[0] != at[0]:
                            # every path from D1 to the use passes through D2
                            killed.add(d1)
        for (bi, si, lhs, rv) in defs:
            if (bi, si) in killed and not lhs["p"]:
                continue
            if at is not None and not self._reaches(bi, si, at[0], at[1]):
                continue
            lk = place_key(lhs)[1:]
            if len(lk) <= len(want) and want[:len(lk)] == lk:
                # the definition covers the read place; remaining projections apply on top
                rest = proj[len(lhs["p"]):]
                val = self._rvalue(rv, (bi, si), depth + 1)
                alts.append(self._apply(val, rest))
            elif len(lk) > len(want) and lk[:len(want)] == want:
                # partial write into the read place: over-approximate
                alts.append(("partial", self._rvalue(rv, (bi, si), depth + 1)))
        if 1 <= local <= body.argc and not entry_killed:
            alts.append(self._apply(("param", local, body.local_name(local)), proj))
        if not alts:
            return self._apply(("unknown", "undef:%s" % body.local_name(local)), proj)
        # dedupe
        out = []
        for a in alts:
            if a not in out:
                out.append(a)
        if len(out) == 1:
            return out[0]
        return ("phi", tuple(out))

    def _rvalue(self, rv, at, depth):
        k = rv["k"]
        if k == "use":
            return self.operand(rv["op"], at, depth)
        if k == "ref" or k == "rawptr":
            return self.place(rv["place"], at, depth)
        if k == "cast":
            inner = self.operand(rv["op"], at, depth)
            if rv["ck"] == "IntToInt":
                return ("cast", inner, rv["ty"], rv.get("from", ""))
            return inner
        if k == "bin":
            return ("bin", rv["o"], self.operand(rv["a"], at, depth), self.operand(rv["b"], at, depth))
        if k == "un":
            return ("un", rv["o"], self.operand(rv["a"], at, depth))
        if k == "discr":
            return ("discr", self.place(rv["place"], at, depth))
        if k == "agg":
            return ("agg", rv["ak"], tuple(self.operand(o, at, depth) for o in rv["ops"]), tuple(rv["fields"]))
        if k == "call":
            t = rv["t"]
            callee = t["f"].get("res") or t["f"].get("fn") or "?"
            args = tuple(self.operand(a, (rv["b"], "T"), depth) for a in t["args"])
            return ("call", callee, args, rv["b"], self.body.path)
        if k == "repeat":
            return ("agg", "array", (self.operand(rv["op"], at, depth),), ())
        return ("unknown", k)


def walk(term):
    """pre-order iteration over all subterms"""
    st = [term]
    seen = 0
    while st:
        t = st.pop()
        seen += 1
        if seen > 20000:
            return
        yield t
        if not isinstance(t, tuple) or not t:
            continue
        k = t[0]
        if k == "call":
            st.extend(t[2])
        elif k in ("field", "variant", "discr", "partial"):
            st.append(t[1])
        elif k == "index":
            st.append(t[1])
        elif k == "bin":
            st.append(t[2]); st.append(t[3])
        elif k in ("un",):
            st.append(t[2])
        elif k == "cast":
            st.append(t[1])
        elif k == "agg":
            st.extend(t[2])
        elif k == "phi":
            st.extend(t[1])


def any_sub(term, pred):
    for t in walk(term):
        if pred(t):
            return True
    return False


def is_call_to(t, pred):
    return isinstance(t, tuple) and t and t[0] == "call" and pred(t[1])


def show(t, depth=0):
    if depth > 8:
        return "..."
    if not isinstance(t, tuple) or not t:
        return str(t)
    k = t[0]
    d = depth + 1
    if k == "const":
        return t[1]
    if k == "fnitem":
        return "fn " + short(t[1])
    if k == "param":
        return t[2]
    if k == "upvar":
        return "upvar:" + t[1]
    if k == "call":
        return "%s(%s)" % (short(t[1]), ", ".join(show(a, d) for a in t[2]))
    if k == "field":
        return "%s.%s" % (show(t[1], d), t[2])
    if k == "variant":
        return "(%s as %s)" % (show(t[1], d), t[2])
    if k == "index":
        return "%s[..]" % show(t[1], d)
    if k == "discr":
        return "discr(%s)" % show(t[1], d)
    if k == "bin":
        return "(%s %s %s)" % (show(t[2], d), t[1], show(t[3], d))
    if k == "un":
        return "%s(%s)" % (t[1], show(t[2], d))
    if k == "cast":
        return "(%s as %s)" % (show(t[1], d), t[2])
    if k == "agg":
        return "%s{%s}" % (short(t[1]), ", ".join(show(a, d) for a in t[2]))
    if k == "phi":
        return "phi(%s)" % " | ".join(show(a, d) for a in t[1])
    if k == "partial":
        return "partial(%s)" % show(t[1], d)
    return "<%s>" % ":".join(str(x) for x in t)


def short(path):
    parts = path.split("::")
    return "::".join(parts[-2:]) if len(parts) > 2 else path


def strip(t):
    """drop casts, phi-of-one; used for comparisons"""
    while isinstance(t, tuple) and t and t[0] == "cast":
        t = t[1]
    return t


def closure_creation(prog, closure_body):
    """find the Aggregate that builds this closure/coroutine: (parent body, block, stmt idx, rvalue)"""
    if not closure_body.root:
        return None
    tag_suffix = ":" + closure_body.path
    for b in prog.family(closure_body.root):
        for i, j, s in b.assigns():
            rv = s["rv"]
            if rv["k"] == "agg" and rv["ak"].endswith(tag_suffix) and rv["ak"].split(":", 1)[0] in (
                    "closure", "coroutine", "coroutineclosure"):
                return b, i, j, rv
    return None


def resolve_upvars(prog, term, body, depth=0):
    """Replace ('upvar', name, closure) by the captured operand's term in the creating body,
    recursively up to the root function."""
    if depth > 6:
        return term

    def rec(t):
        if not isinstance(t, tuple) or not t:
            return t
        if t[0] == "upvar":
            cb = prog.bodies.get(t[2])
            if cb is None:
                return t
            cc = closure_creation(prog, cb)
            if cc is None:
                return t
            pb, bi, si, rv = cc
            # capture names may carry projections ("self.foo"); match by exact name
            names = rv["fields"]
            if t[1] in names:
                op = rv["ops"][names.index(t[1])]
                ev = Ev(prog, pb)
                inner = ev.operand(op, (bi, si))
                return resolve_upvars(prog, inner, pb, depth + 1)
            return t
        k = t[0]
        if k == "call":
            return (k, t[1], tuple(rec(a) for a in t[2]), t[3], t[4])
        if k in ("field",):
            return (k, rec(t[1]), t[2], t[3])
        if k in ("variant",):
            return (k, rec(t[1]), t[2])
        if k in ("discr", "partial"):
            return (k, rec(t[1]))
        if k == "index":
            return (k, rec(t[1]), t[2])
        if k == "bin":
            return (k, t[1], rec(t[2]), rec(t[3]))
        if k == "un":
            return (k, t[1], rec(t[2]))
        if k == "cast":
            return (k, rec(t[1]), t[2], t[3])
        if k == "agg":
            return (k, t[1], tuple(rec(a) for a in t[2]), t[3])
        if k == "phi":
            return (k, tuple(rec(a) for a in t[1]))
        return t

    return rec(term)
