"""Program model over the JSON facts written by driver/ (mir_built CFGs, ADTs, impls)."""
import json
import os
import re
from collections import defaultdict


class Inconclusive(Exception):
    """An anchor cannot be resolved or a floor is missed: fail closed."""


def op_place(op):
    if op is None:
        return None
    return op.get("cp") or op.get("mv")


def is_const(op):
    return op is not None and "c" in op


def const_int(op):
    if op is not None and "v" in op:
        try:
            return int(op["v"])
        except ValueError:
            return None
    return None


def place_key(p):
    """hashable key for a place"""
    out = [p["l"]]
    for e in p["p"]:
        if e == "*":
            out.append("*")
        elif isinstance(e, str):
            out.append(e)
        elif "f" in e:
            out.append(("f", e["f"]))
        elif "dc" in e:
            out.append(("dc", e["v"]))
        elif "ix" in e:
            out.append(("ix", e["ix"]))
        elif "cix" in e:
            out.append(("cix", e["cix"], e["end"]))
        elif "sub" in e:
            out.append(("sub", tuple(e["sub"]), e["end"]))
    return tuple(out)


def place_fields(p):
    """list of (field name, owner) along a place"""
    return [(e["n"], e["o"]) for e in p["p"] if isinstance(e, dict) and "f" in e]


def fmt_place(body, p):
    s = body.local_name(p["l"])
    for e in p["p"]:
        if e == "*":
            s = "(*%s)" % s
        elif isinstance(e, str):
            s = "%s as %s" % (s, e)
        elif "f" in e:
            s = "%s.%s" % (s, e["n"])
        elif "dc" in e:
            s = "(%s as %s)" % (s, e["dc"])
        elif "ix" in e:
            s = "%s[%s]" % (s, body.local_name(e["ix"]))
        elif "cix" in e:
            s = "%s[%s%d]" % (s, "-" if e["end"] else "", e["cix"])
        elif "sub" in e:
            s = "%s[%d..%d]" % (s, e["sub"][0], e["sub"][1])
    return s


def fmt_op(body, op):
    if op is None:
        return "?"
    if "c" in op:
        return op["c"]
    return fmt_place(body, op_place(op))


class Body:
    def __init__(self, d, crate):
        self.d = d
        self.crate = crate
        self.path = d["path"]
        self.kind = d["kind"]
        self.root = d.get("root")
        self.file = d["file"]
        self.lo = d["lo"]
        self.hi = d["bhi"]
        self.locals = d["locals"]
        self.blocks = d["blocks"]
        self.argc = d["argc"]
        self.is_coroutine = d["coroutine"]
        self.upvars = d.get("upvars", [])
        self._succ = None
        self._pred = None
        self._defs = None
        self._dom = None

    # ---------- naming
    def local_name(self, l):
        n = self.locals[l]["n"]
        return n if n else "_%d" % l

    def local_ty(self, l):
        return self.locals[l]["ty"]

    def where(self, line=None):
        return "%s:%d" % (self.file, line if line else self.lo)

    # ---------- CFG
    def term(self, b):
        return self.blocks[b]["t"]

    def stmts(self, b):
        return self.blocks[b]["s"]

    def succ_of_term(self, t):
        k = t["k"]
        if k == "goto":
            return [t["target"]]
        if k == "switch":
            out = [x[1] for x in t["targets"]]
            out.append(t["otherwise"])
            return out
        if k in ("call", "drop", "assert", "yield"):
            return [t["target"]] if t.get("target") is not None else []
        return []

    @property
    def succ(self):
        if self._succ is None:
            self._succ = [self.succ_of_term(b["t"]) if not b.get("cleanup") else [] for b in self.blocks]
        return self._succ

    @property
    def pred(self):
        if self._pred is None:
            p = [[] for _ in self.blocks]
            for i, ss in enumerate(self.succ):
                for s in ss:
                    p[s].append(i)
            self._pred = p
        return self._pred

    def reachable_blocks(self):
        return self.reach_from([0])

    def reach_from(self, starts, avoid=frozenset(), avoid_edges=frozenset()):
        """blocks reachable from `starts` (inclusive) without entering blocks in avoid."""
        seen = set()
        st = [s for s in starts if s not in avoid]
        while st:
            b = st.pop()
            if b in seen:
                continue
            seen.add(b)
            for s in self.succ[b]:
                if s not in seen and s not in avoid and (b, s) not in avoid_edges:
                    st.append(s)
        return seen

    def reach_after(self, starts, avoid=frozenset(), avoid_edges=frozenset()):
        """blocks reachable from the *successors* of starts."""
        st = []
        for b in starts:
            for s in self.succ[b]:
                if (b, s) not in avoid_edges:
                    st.append(s)
        return self.reach_from(st, avoid, avoid_edges)

    @property
    def dom(self):
        """dominator sets (bitset ints) via iterative algorithm."""
        if self._dom is None:
            n = len(self.blocks)
            reach = self.reachable_blocks()
            full = (1 << n) - 1
            dom = [full] * n
            dom[0] = 1
            order = self.rpo()
            changed = True
            while changed:
                changed = False
                for b in order:
                    if b == 0:
                        continue
                    new = full
                    for p in self.pred[b]:
                        if p in reach:
                            new &= dom[p]
                    new |= (1 << b)
                    if new != dom[b]:
                        dom[b] = new
                        changed = True
            self._dom = dom
        return self._dom

    def dominates(self, a, b):
        return bool(self.dom[b] >> a & 1)

    def rpo(self):
        seen = set()
        order = []
        st = [(0, iter(self.succ[0]))]
        seen.add(0)
        while st:
            b, it = st[-1]
            adv = False
            for s in it:
                if s not in seen:
                    seen.add(s)
                    st.append((s, iter(self.succ[s])))
                    adv = True
                    break
            if not adv:
                order.append(b)
                st.pop()
        order.reverse()
        return order

    def back_edges(self):
        out = set()
        for b in self.reachable_blocks():
            for s in self.succ[b]:
                if self.dominates(s, b):
                    out.add((b, s))
        return out

    # ---------- iteration helpers
    def calls(self):
        """yield (block index, terminator) for every call."""
        for i, b in enumerate(self.blocks):
            t = b["t"]
            if t["k"] == "call":
                yield i, t

    def callee(self, t):
        f = t["f"]
        return f.get("res") or f.get("fn")

    def callee_decl(self, t):
        return t["f"].get("fn")

    def call_sites(self, pred):
        """blocks whose terminator is a call with callee (declared or resolved) matching pred."""
        out = []
        for i, t in self.calls():
            a, b = t["f"].get("fn"), t["f"].get("res")
            if (a and pred(a)) or (b and pred(b)):
                out.append(i)
        return out

    def return_blocks(self):
        return [i for i, b in enumerate(self.blocks) if b["t"]["k"] == "return"]

    def assigns(self):
        for i, b in enumerate(self.blocks):
            for j, s in enumerate(b["s"]):
                if s["k"] == "assign":
                    yield i, j, s

    @property
    def defs(self):
        """local -> list of (block, stmt index or 'T', lhs place, rvalue-or-call)"""
        if self._defs is None:
            d = defaultdict(list)
            for i, b in enumerate(self.blocks):
                for j, s in enumerate(b["s"]):
                    if s["k"] == "assign":
                        d[s["lhs"]["l"]].append((i, j, s["lhs"], s["rv"]))
                t = b["t"]
                if t["k"] == "call":
                    d[t["dest"]["l"]].append((i, "T", t["dest"], {"k": "call", "t": t, "b": i}))
                elif t["k"] == "yield":
                    pass
            self._defs = d
        return self._defs


class Program:
    def __init__(self, facts_dir, crates=None):
        self.dir = facts_dir
        self.bodies = {}
        self.by_crate = defaultdict(list)
        self.adts = {}
        self.impls = []
        self.consts = {}
        self.sconsts = {}
        self.docs = {}
        self.stolen = []
        self.collisions = set()
        self._hir = {}
        self._callers = None
        for fn in sorted(os.listdir(facts_dir)):
            if not fn.endswith(".json") or fn.endswith(".hir.json"):
                continue
            name = fn[:-5]
            if crates is not None and name not in crates:
                continue
            with open(os.path.join(facts_dir, fn)) as fh:
                d = json.load(fh)
            for b in d["bodies"]:
                body = Body(b, name)
                if body.path in self.bodies:
                    self.collisions.add(body.path)
                    continue
                self.bodies[body.path] = body
                self.by_crate[name].append(body)
            for a in d["adts"]:
                self.adts[a["path"]] = a
            for im in d["impls"]:
                im["crate"] = name
                self.impls.append(im)
            for c in d["consts"]:
                if "sv" in c:
                    self.sconsts[c["path"]] = c["sv"]          # named `&str` constant -> its literal
                else:
                    self.consts[c["path"]] = int(c["v"])
            for c in d["docs"]:
                self.docs[c["path"]] = c["doc"]
            self.stolen += d["stolen"]
        if self.stolen:
            # a body the extractor could not read might contain a violation: fail closed
            raise Inconclusive("the extractor could not read %d bodies (consumed by the compiler): %s" % (len(self.stolen), self.stolen[:5]))

    def hir(self, crate_file):
        if crate_file not in self._hir:
            with open(os.path.join(self.dir, crate_file + ".hir.json")) as fh:
                d = json.load(fh)
            self._hir[crate_file] = {h["path"]: h for h in d["hir"]}
        return self._hir[crate_file]

    def body(self, path):
        b = self.bodies.get(path)
        if b is None:
            if path in self.stolen:
                raise Inconclusive("anchor %s: body was consumed by const evaluation" % path)
            raise Inconclusive("anchor not found: %s" % path)
        return b

    def find(self, regex):
        r = re.compile(regex)
        return [b for p, b in self.bodies.items() if r.search(p)]

    def children(self, path):
        """closure / coroutine bodies whose typeck root is `path` (all nesting levels)."""
        return [b for b in self.bodies.values() if b.root == path]

    def family(self, path):
        """the function and every closure/coroutine body nested in it"""
        return [self.body(path)] + self.children(path)

    def trait_impl_methods(self, trait_item):
        out = []
        for im in self.impls:
            for m in im["methods"]:
                if m["trait_item"] == trait_item:
                    out.append(m["path"])
        return out

    def callers(self):
        """callee path -> list of (body, block)"""
        if self._callers is None:
            c = defaultdict(list)
            for b in self.bodies.values():
                for i, t in b.calls():
                    seen = set()
                    for key in ("res", "fn"):
                        p = t["f"].get(key)
                        if p and p not in seen:
                            seen.add(p)
                            c[p].append((b, i))
            self._callers = c
        return self._callers

    def fn_refs(self, path):
        """bodies that mention the fn item `path` as a value (function pointers, closures passed by name)"""
        out = []
        for b in self.bodies.values():
            for i, j, s in b.assigns():
                if _mentions_fn(s["rv"], path):
                    out.append((b, i))
            for i, t in b.calls():
                for a in t["args"]:
                    if a.get("fn") == path or a.get("res") == path:
                        out.append((b, i))
        return out


def _mentions_fn(rv, path):
    for k in ("op", "a", "b"):
        o = rv.get(k)
        if isinstance(o, dict) and (o.get("fn") == path or o.get("res") == path):
            return True
    for o in rv.get("ops", []):
        if o.get("fn") == path or o.get("res") == path:
            return True
    return False
