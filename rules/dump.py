"""Pretty-printer for extracted bodies (debugging aid for writing rules)."""
import re
from .facts import Program, fmt_op, fmt_place


def fmt_rv(b, rv):
    k = rv["k"]
    if k == "use":
        return fmt_op(b, rv["op"])
    if k == "ref":
        return "&%s%s" % ("mut " if rv["mut"] else "", fmt_place(b, rv["place"]))
    if k == "rawptr":
        return "&raw %s" % fmt_place(b, rv["place"])
    if k == "cast":
        return "%s as %s [%s]" % (fmt_op(b, rv["op"]), rv["ty"], rv["ck"])
    if k == "bin":
        return "%s(%s, %s)" % (rv["o"], fmt_op(b, rv["a"]), fmt_op(b, rv["b"]))
    if k == "un":
        return "%s(%s)" % (rv["o"], fmt_op(b, rv["a"]))
    if k == "discr":
        return "discriminant(%s)" % fmt_place(b, rv["place"])
    if k == "agg":
        ops = [fmt_op(b, o) for o in rv["ops"]]
        if rv["fields"] and len(rv["fields"]) == len(ops):
            ops = ["%s: %s" % (f, o) for f, o in zip(rv["fields"], ops)]
        return "%s { %s }" % (rv["ak"], ", ".join(ops))
    if k == "repeat":
        return "[%s; %s]" % (fmt_op(b, rv["op"]), rv["n"])
    return "<%s %s>" % (k, rv.get("dbg", ""))


def fmt_term(b, t):
    k = t["k"]
    if k == "goto":
        return "goto bb%d" % t["target"]
    if k == "switch":
        return "switch(%s) [%s, otherwise: bb%d]" % (fmt_op(b, t["op"]), ", ".join("%s: bb%d" % (v, x) for v, x in t["targets"]), t["otherwise"])
    if k == "call":
        f = t["f"]
        name = f.get("fn") or f.get("c")
        res = f.get("res")
        s = "%s = %s(%s)" % (fmt_place(b, t["dest"]), name, ", ".join(fmt_op(b, a) for a in t["args"]))
        if res and res != name:
            s += "  [-> %s]" % res
        return s + " -> bb%s" % t["target"]
    if k == "drop":
        return "drop(%s) -> bb%d" % (fmt_place(b, t["place"]), t["target"])
    if k == "assert":
        return "assert(%s == %s, %s(%s)) -> bb%d" % (fmt_op(b, t["cond"]), t["expected"], t["msg"], ", ".join(fmt_op(b, o) for o in t["ops"]), t["target"])
    if k == "yield":
        return "yield(%s) -> bb%d" % (fmt_op(b, t["value"]), t["target"])
    return k


def dump_body(b, full=True, out=print, nomacro=False):
    out("== %s  [%s, %s:%d-%d, coroutine=%s, argc=%d]" % (b.path, b.kind, b.file, b.lo, b.hi, b.is_coroutine, b.argc))
    if b.upvars:
        out("   upvars: %s" % b.upvars)
    reach = b.reachable_blocks()
    for i, blk in enumerate(b.blocks):
        if blk.get("cleanup") or i not in reach:
            continue
        out("  bb%d:" % i)
        if full:
            for s in blk["s"]:
                if nomacro and s.get("exp", "").startswith("macro:"):
                    continue
                if s["k"] == "assign":
                    out("      %s = %s   // L%d %s" % (fmt_place(b, s["lhs"]), fmt_rv(b, s["rv"]), s["line"], s["exp"]))
                elif s["k"] == "setdiscr":
                    out("      discriminant(%s) = %d" % (fmt_place(b, s["lhs"]), s["v"]))
        t = blk["t"]
        if nomacro and t.get("exp", "").startswith("macro:") and t["k"] != "return":
            out("      => [macro %s] -> %s" % (t["k"], b.succ[i]))
            continue
        if full or t["k"] in ("call", "switch", "assert", "yield", "return"):
            out("      => %s   // L%s %s" % (fmt_term(b, t), t.get("line"), t.get("exp", "")))


def dump(facts_dir, rx, full, nomacro=False):
    prog = Program(facts_dir)
    r = re.compile(rx)
    for p in sorted(prog.bodies):
        if r.search(p):
            dump_body(prog.bodies[p], full, nomacro=nomacro)
