"""Quorum shape rule (R7.3): every value compared against a count and derived from the
replication factor is exactly rf/2 + 1, and the comparison's boundary is `count >= quorum`."""
from .flow import Ev, walk, resolve_upvars, show, strip
from .gate import linear, switch_on, edge_dominates, CMP, SWAP, NEG


def is_rf_leaf(t):
    if not isinstance(t, tuple) or not t:
        return False
    if t[0] == "field" and t[2] == "replication_factor":
        return True
    if t[0] == "param" and t[2] == "replication_factor":
        return True
    if t[0] == "upvar" and t[1] == "replication_factor":
        return True
    return False


def has_rf(t):
    return any(is_rf_leaf(x) for x in walk(t))


_PROG = None
_RET = {}


def set_prog(prog):
    global _PROG
    _PROG = prog


def _helper_return(path):
    if path not in _RET:
        from .gate import Classifier
        _RET[path] = Classifier(_PROG, lambda t: False, lambda t: False).closure_return(path)
    return _RET[path]


def quorum_shape(t, leaf=None):
    """True iff t == rf/2 + 1 (casts ignored); also through a workspace helper `fn quorum(rf) -> usize { rf / 2 + 1 }`
    called with the replication factor"""
    leaf = leaf or is_rf_leaf
    base, off = linear(t)
    base = strip(base)
    if off == 0 and base[0] == "call" and _PROG is not None and base[1] in _PROG.bodies and len(base[2]) >= 1:
        hb = _PROG.bodies[base[1]]
        idx = [i for i, a in enumerate(base[2]) if leaf(strip(a))]
        if len(idx) == 1 and len(hb.blocks) <= 40:
            k = idx[0] + 1
            return quorum_shape(_helper_return(base[1]), leaf=lambda x: isinstance(x, tuple) and x and x[0] == "param" and x[1] == k)
        return False
    if off != 1:
        return False
    if base[0] == "bin" and base[1] == "Div":
        a, b = strip(base[2]), strip(base[3])
        if leaf(a) and b[0] == "const" and b[2] == 2:
            return True
    return False


def contains_quorum(t):
    """does the term contain (possibly under phi) an rf-derived quantity?"""
    return has_rf(t)


def comparisons(prog, body, ev=None):
    from .gate import comparisons as cmps
    for c in cmps(prog, body, ev):
        yield c["sw_block"], c["stmt"], {"lhs": c["lhs"], "line": c["line"]}, c["op"], c["a"], c["b"]


def normalise(op, a, b):
    """return (count_term, q_term, op with count on the left) if exactly one side is rf-derived"""
    ra, rb = has_rf(a), has_rf(b)
    if ra and not rb:
        return b, a, SWAP[op]
    if rb and not ra:
        return a, b, op
    return None


def check_all(chk, prog, rule):
    set_prog(prog)
    n = 0
    for body in prog.bodies.values():
        if ".rs" not in body.file or "/tests/" in body.file:
            continue
        ev = None
        for bi, si, s, op, a, b in comparisons(prog, body):
            nz = normalise(op, a, b)
            if nz is None:
                continue
            count, q, op2 = nz
            # min(rf, n) style clamps are not quorum comparisons
            qs = strip(q)
            n += 1
            fn = body.root or body.path
            chk.analysed(body.path)
            inst = "L?:%s %s %s" % (show(count), op2, show(q))
            if not quorum_shape(q):
                # alternatives under phi: every alternative must be quorum-shaped
                if qs[0] == "phi" and all(quorum_shape(x) for x in qs[1]):
                    pass
                else:
                    chk.fail(rule, fn, "quorum-shape:%s" % show(count), "value compared with a count is derived from the replication factor but is not rf/2+1: %s" % show(q), body, s["line"])
                    continue
            if linear(count)[1] != 0:
                chk.fail(rule, fn, "quorum-count-offset:%s" % show(linear(count)[0]), "the count compared with the quorum is shifted by a constant (%s): the boundary is no longer `count >= rf/2+1`" % show(count), body, s["line"])
                continue
            if op2 in ("Ge", "Lt"):
                chk.ok(rule, "%s: `%s %s quorum` (boundary at rf/2+1)" % (fn.split("::")[-1], show(count), op2), body.where(s["line"]))
            else:
                chk.fail(rule, fn, "quorum-boundary:%s" % show(count), "count is compared with the quorum using %s; the boundary must be `count >= rf/2+1` (or its negation `count < quorum`)" % op2, body, s["line"])
    chk.floor(rule, n, 8)
    return n


def count_gate_dominates(prog, body, block, count_field, ev=None):
    """is `block` dominated by the edge on which <x>.count_field >= rf/2+1 holds?"""
    set_prog(prog)
    seen = []
    ok = False
    for bi, si, s, op, a, b in comparisons(prog, body, ev):
        nz = normalise(op, a, b)
        if nz is None:
            continue
        count, q, op2 = nz
        if not any(isinstance(x, tuple) and x and x[0] == "field" and x[2] == count_field for x in walk(count)):
            continue
        if not quorum_shape(q) or linear(count)[1] != 0:
            seen.append("%s %s %s (not count >= rf/2+1)" % (show(count), op2, show(q)))
            continue
        sw = switch_on(body, bi, s["lhs"]["l"])
        if sw is None:
            continue
        tr, fa = sw
        if op2 == "Ge":
            edge = (bi, tr)
        elif op2 == "Lt":
            edge = (bi, fa)
        else:
            seen.append("%s %s quorum (boundary off)" % (show(count), op2))
            continue
        dom = edge_dominates(body, edge[0], edge[1], block)
        seen.append("%s %s quorum%s" % (show(count), op2, " [dominates]" if dom else ""))
        ok = ok or dom
    return ok, seen


def _leaf_names(term, out=None):
    """names of the fields / parameters / captured variables a term is computed from directly (results of calls are opaque)"""
    out = set() if out is None else out
    t = strip(term)
    k = t[0]
    if k == "field":
        out.add(t[2])
    elif k == "param":
        out.add(t[2])
    elif k == "upvar":
        out.add(t[1].split(".")[-1])
    elif k in ("cast", "un"):
        _leaf_names(t[1] if k == "cast" else t[2], out)
    elif k == "bin":
        _leaf_names(t[2], out)
        _leaf_names(t[3], out)
    elif k == "phi":
        for a in t[1]:
            _leaf_names(a, out)
    elif k in ("variant",):
        _leaf_names(t[1], out)
    return out


def check_role_args(chk, prog, rule, crates=("sierradb_cluster",)):
    """ROLE BINDING of the quorum inputs: a parameter named `replication_factor` receives a replication factor itself (a field / parameter /
    captured variable of that name, a constant, or the min with a node count) - never a value the quorum formula was already applied to;
    a parameter named `required_quorum` receives rf/2+1 (or a value of that name); `confirmation_count` is never fed from a
    replication-factor or quorum value. Returns the number of bindings looked at."""
    set_prog(prog)
    n = 0
    for p, b in sorted(prog.bodies.items()):
        if "/tests/" in b.file or not any(p.startswith(c + "::") for c in crates):
            continue
        ev = None
        for bi, t in b.calls():
            c = b.callee(t) or b.callee_decl(t) or ""
            kb = prog.bodies.get(c)
            if kb is None:
                continue
            pn = [kb.local_name(i + 1) for i in range(kb.argc)]
            for i, name in enumerate(pn):
                if name not in ("replication_factor", "required_quorum", "confirmation_count") or i >= len(t["args"]):
                    continue
                ev = ev or Ev(prog, b)
                term = resolve_upvars(prog, ev.operand(t["args"][i], (bi, "T")), b)
                st = strip(term)
                while st[0] == "cast":
                    st = strip(st[1])
                names = _leaf_names(term)
                n += 1
                fn = b.root or b.path
                what = "%s(.. %s ..)" % (c.rsplit("::", 1)[-1], name)
                if name == "replication_factor":
                    plain = is_rf_leaf(st) or st[0] == "const" or (st[0] == "call" and st[1].endswith("::min") and any(is_rf_leaf(strip(a)) for a in st[2]))
                    if plain:
                        chk.ok(rule, "%s <- %s" % (what, show(st)[:40]), b.where(t["line"]))
                    else:
                        chk.fail(rule, fn, "rf-arg-derived:%s" % c.rsplit("::", 1)[-1], "the `replication_factor` parameter of %s is given a computed value (%s), not the replication "
                                 "factor: the callee applies rf/2+1 to it, so the quorum it enforces is not a majority of the replicas" % (c.rsplit("::", 1)[-1], show(st)[:70]), b, t["line"])
                elif name == "required_quorum":
                    good = quorum_shape(term) or "required_quorum" in names or (st[0] == "phi" and all(quorum_shape(a) for a in st[1]))
                    if good:
                        chk.ok(rule, "%s <- rf/2+1" % what, b.where(t["line"]))
                    else:
                        chk.fail(rule, fn, "quorum-arg-shape:%s" % c.rsplit("::", 1)[-1], "the `required_quorum` parameter of %s is given %s, which is not rf/2+1" % (c.rsplit("::", 1)[-1], show(st)[:70]), b, t["line"])
                else:
                    if names & {"replication_factor", "required_quorum"}:
                        chk.fail(rule, fn, "count-arg-crossed:%s" % c.rsplit("::", 1)[-1], "the `confirmation_count` parameter of %s is computed from %s: a configuration value is "
                                 "taken for the number of confirmations an event has" % (c.rsplit("::", 1)[-1], sorted(names & {"replication_factor", "required_quorum"})), b, t["line"])
                    else:
                        chk.ok(rule, "%s <- %s" % (what, show(st)[:40]), b.where(t["line"]))
    return n
