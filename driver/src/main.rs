// sv-driver: rustc_private fact extractor for the sierradb static checks.
//
// Used as RUSTC_WORKSPACE_WRAPPER under `cargo +nightly check`. For every workspace
// crate it compiles it writes ONE json file `$SV_FACTS_DIR/<crate>-<kind>.json` with:
//   * every body owner's `mir_built` CFG (field-sensitive places, resolved callees),
//   * local ADTs and trait impls,
//   * HIR expression trees of the bodies (resolved callee paths, literals),
//   * doc comments of local items.
// It never runs analysed code; it only serialises what the compiler front end built.
#![feature(rustc_private)]
extern crate rustc_abi;
extern crate rustc_ast;
extern crate rustc_driver;
extern crate rustc_hir;
extern crate rustc_interface;
extern crate rustc_middle;
extern crate rustc_span;

use rustc_driver::Compilation;
use rustc_hir::def::DefKind;
use rustc_hir::def_id::{DefId, LocalDefId};
use rustc_middle::mir::{
    self, AggregateKind, BinOp, Body, CastKind, Operand, Place, ProjectionElem, Rvalue,
    StatementKind, TerminatorKind,
};
use rustc_middle::ty::print::PrintTraitRefExt;
use rustc_middle::ty::{self, Ty, TyCtxt};
use rustc_span::Span;
use std::fmt::Write as _;

fn esc(s: &str) -> String {
    let mut o = String::with_capacity(s.len() + 2);
    o.push('"');
    for c in s.chars() {
        match c {
            '"' => o.push_str("\\\""),
            '\\' => o.push_str("\\\\"),
            '\n' => o.push_str("\\n"),
            '\r' => o.push_str("\\r"),
            '\t' => o.push_str("\\t"),
            c if (c as u32) < 0x20 => {
                let _ = write!(o, "\\u{:04x}", c as u32);
            }
            c => o.push(c),
        }
    }
    o.push('"');
    o
}

struct Cx<'tcx> {
    tcx: TyCtxt<'tcx>,
    // named constants seen in bodies; evaluated only after every body was serialised
    // (const evaluation steals the `mir_built` of local const fns)
    named: std::cell::RefCell<std::collections::HashSet<DefId>>,
    // bodies whose `mir_built` was already consumed by const evaluation (const fns
    // used in constant contexts); listed so that rules anchored on them fail closed
    stolen: std::cell::RefCell<Vec<String>>,
}

impl<'tcx> Cx<'tcx> {
    fn path(&self, d: DefId) -> String {
        // def_path_str without generic arguments, crate-qualified
        let tcx = self.tcx;
        let s = tcx.def_path_str(d);
        if d.is_local() {
            let k = tcx.crate_name(rustc_span::def_id::LOCAL_CRATE);
            format!("{}::{}", k, s)
        } else {
            s
        }
    }

    fn span_info(&self, sp: Span) -> (String, usize, usize, String) {
        let sm = self.tcx.sess.source_map();
        // expansion description
        let exp = if sp.from_expansion() {
            let d = sp.ctxt().outer_expn_data();
            match d.kind {
                rustc_span::ExpnKind::Macro(_, name) => format!("macro:{}", name),
                rustc_span::ExpnKind::Desugaring(k) => format!("desugar:{:?}", k),
                rustc_span::ExpnKind::AstPass(k) => format!("astpass:{:?}", k),
                rustc_span::ExpnKind::Root => String::new(),
            }
        } else {
            String::new()
        };
        // line of the outermost call site, so macro-generated code points into the repo
        let root = sp.source_callsite();
        let lo = sm.lookup_char_pos(root.lo());
        let hi = sm.lookup_char_pos(root.hi());
        let file = match &lo.file.name {
            rustc_span::FileName::Real(r) => match r.local_path() {
                Some(p) => p.to_string_lossy().to_string(),
                None => format!("{:?}", lo.file.name),
            },
            other => format!("{:?}", other),
        };
        (file, lo.line, hi.line, exp)
    }

    fn ty_s(&self, t: Ty<'tcx>) -> String {
        format!("{}", t)
    }

    fn place(&self, body: &Body<'tcx>, p: &Place<'tcx>) -> String {
        let mut o = String::new();
        let _ = write!(o, "{{\"l\":{},\"p\":[", p.local.as_usize());
        let mut first = true;
        let mut cur_ty = mir::PlaceTy::from_ty(body.local_decls[p.local].ty);
        for elem in p.projection.iter() {
            if !first {
                o.push(',');
            }
            first = false;
            match elem {
                ProjectionElem::Deref => o.push_str("\"*\""),
                ProjectionElem::Field(f, _) => {
                    // name the field when the base is an ADT / closure / coroutine
                    let (fname, owner) = self.field_name(cur_ty, f.as_usize());
                    let _ = write!(
                        o,
                        "{{\"f\":{},\"n\":{},\"o\":{}}}",
                        f.as_usize(),
                        esc(&fname),
                        esc(&owner)
                    );
                }
                ProjectionElem::Index(l) => {
                    let _ = write!(o, "{{\"ix\":{}}}", l.as_usize());
                }
                ProjectionElem::ConstantIndex { offset, from_end, .. } => {
                    let _ = write!(o, "{{\"cix\":{},\"end\":{}}}", offset, from_end);
                }
                ProjectionElem::Subslice { from, to, from_end } => {
                    let _ = write!(o, "{{\"sub\":[{},{}],\"end\":{}}}", from, to, from_end);
                }
                ProjectionElem::Downcast(name, v) => {
                    let n = name.map(|s| s.to_string()).unwrap_or_default();
                    let _ = write!(o, "{{\"dc\":{},\"v\":{}}}", esc(&n), v.as_usize());
                }
                ProjectionElem::OpaqueCast(_) => o.push_str("\"opaque\""),
                ProjectionElem::UnwrapUnsafeBinder(_) => o.push_str("\"unbind\""),
            }
            cur_ty = cur_ty.projection_ty(self.tcx, elem);
        }
        o.push_str("]}");
        o
    }

    fn field_name(&self, pt: mir::PlaceTy<'tcx>, idx: usize) -> (String, String) {
        match pt.ty.kind() {
            ty::Adt(adt, _) => {
                let v = match pt.variant_index {
                    Some(v) => adt.variant(v),
                    None => {
                        if adt.is_enum() {
                            return (format!("{}", idx), self.path(adt.did()));
                        }
                        adt.non_enum_variant()
                    }
                };
                let owner = if adt.is_enum() {
                    format!("{}::{}", self.path(adt.did()), v.name)
                } else {
                    self.path(adt.did())
                };
                match v.fields.iter().nth(idx) {
                    Some(f) => (f.name.to_string(), owner),
                    None => (format!("{}", idx), owner),
                }
            }
            ty::Closure(did, _) | ty::Coroutine(did, _) | ty::CoroutineClosure(did, _) => {
                let names = self.upvar_names(*did);
                let n = names.get(idx).cloned().unwrap_or_else(|| format!("{}", idx));
                (n, self.path(*did))
            }
            ty::Tuple(_) => (format!("{}", idx), "tuple".to_string()),
            _ => (format!("{}", idx), String::new()),
        }
    }

    fn upvar_names(&self, did: DefId) -> Vec<String> {
        if let Some(l) = did.as_local() {
            self.tcx
                .closure_captures(l)
                .iter()
                .map(|c| c.to_string(self.tcx))
                .collect()
        } else {
            vec![]
        }
    }

    fn constant(&self, owner: LocalDefId, c: &mir::ConstOperand<'tcx>) -> String {
        let tcx = self.tcx;
        let t = c.const_.ty();
        let mut o = String::new();
        let _ = write!(o, "{{\"c\":{},\"ty\":{}", esc(&format!("{}", c.const_)), esc(&self.ty_s(t)));
        match t.kind() {
            ty::FnDef(did, args) => {
                let _ = write!(o, ",\"fn\":{}", esc(&self.path(*did)));
                let env = ty::TypingEnv::post_analysis(tcx, owner.to_def_id());
                if let Ok(Some(i)) = ty::Instance::try_resolve(tcx, env, *did, args) {
                    let _ = write!(o, ",\"res\":{}", esc(&self.path(i.def_id())));
                }
            }
            ty::Int(_) | ty::Uint(_) | ty::Bool | ty::Char if matches!(c.const_, mir::Const::Val(..)) => {
                let env = ty::TypingEnv::post_analysis(tcx, owner.to_def_id());
                if let Some(si) = c.const_.try_eval_scalar_int(tcx, env) {
                    let size = si.size();
                    let v: i128 = match t.kind() {
                        ty::Int(_) => si.to_int(size),
                        _ => si.to_uint(size) as i128,
                    };
                    let _ = write!(o, ",\"v\":{}", esc(&format!("{}", v)));
                }
            }
            _ => {}
        }
        // named constant?
        if let mir::Const::Unevaluated(u, _) = c.const_ {
            let _ = write!(o, ",\"named\":{}", esc(&self.path(u.def)));
            self.named.borrow_mut().insert(u.def);
        }
        o.push('}');
        o
    }

    fn operand(&self, owner: LocalDefId, body: &Body<'tcx>, op: &Operand<'tcx>) -> String {
        match op {
            Operand::Copy(p) => format!("{{\"cp\":{}}}", self.place(body, p)),
            Operand::Move(p) => format!("{{\"mv\":{}}}", self.place(body, p)),
            Operand::Constant(c) => self.constant(owner, c),
            #[allow(unreachable_patterns)]
            _ => format!("{{\"c\":{},\"ty\":\"?\"}}", esc(&format!("{:?}", op))),
        }
    }

    fn rvalue(&self, owner: LocalDefId, body: &Body<'tcx>, rv: &Rvalue<'tcx>) -> String {
        match rv {
            Rvalue::Use(op, ..) => format!("{{\"k\":\"use\",\"op\":{}}}", self.operand(owner, body, op)),
            Rvalue::Repeat(op, n) => format!(
                "{{\"k\":\"repeat\",\"op\":{},\"n\":{}}}",
                self.operand(owner, body, op),
                esc(&format!("{}", n))
            ),
            Rvalue::Ref(_, bk, p) => format!(
                "{{\"k\":\"ref\",\"mut\":{},\"place\":{}}}",
                matches!(bk, mir::BorrowKind::Mut { .. }),
                self.place(body, p)
            ),
            Rvalue::RawPtr(_, p) => format!("{{\"k\":\"rawptr\",\"place\":{}}}", self.place(body, p)),
            Rvalue::Cast(kind, op, t) => {
                let k = match kind {
                    CastKind::IntToInt => "IntToInt".to_string(),
                    other => format!("{:?}", other),
                };
                let from = op.ty(&body.local_decls, self.tcx);
                format!(
                    "{{\"k\":\"cast\",\"ck\":{},\"op\":{},\"from\":{},\"ty\":{}}}",
                    esc(&k),
                    self.operand(owner, body, op),
                    esc(&self.ty_s(from)),
                    esc(&self.ty_s(*t))
                )
            }
            Rvalue::BinaryOp(op, ab) => {
                let (a, b) = &**ab;
                format!(
                    "{{\"k\":\"bin\",\"o\":{},\"a\":{},\"b\":{},\"ty\":{}}}",
                    esc(&binop(*op)),
                    self.operand(owner, body, a),
                    self.operand(owner, body, b),
                    esc(&self.ty_s(a.ty(&body.local_decls, self.tcx)))
                )
            }
            Rvalue::UnaryOp(op, a) => format!(
                "{{\"k\":\"un\",\"o\":{},\"a\":{}}}",
                esc(&format!("{:?}", op)),
                self.operand(owner, body, a)
            ),
            Rvalue::Discriminant(p) => format!("{{\"k\":\"discr\",\"place\":{}}}", self.place(body, p)),
            Rvalue::Aggregate(kind, ops) => {
                let (ks, fields): (String, Vec<String>) = match &**kind {
                    AggregateKind::Array(_) => ("array".into(), vec![]),
                    AggregateKind::Tuple => ("tuple".into(), vec![]),
                    AggregateKind::Adt(did, vidx, _, _, active) => {
                        let adt = self.tcx.adt_def(*did);
                        let v = adt.variant(*vidx);
                        let name = if adt.is_enum() {
                            format!("adt:{}::{}", self.path(*did), v.name)
                        } else {
                            format!("adt:{}", self.path(*did))
                        };
                        let fields = if let Some(a) = active {
                            vec![v.fields[*a].name.to_string()]
                        } else {
                            v.fields.iter().map(|f| f.name.to_string()).collect()
                        };
                        (name, fields)
                    }
                    AggregateKind::Closure(did, _) => {
                        (format!("closure:{}", self.path(*did)), self.upvar_names(*did))
                    }
                    AggregateKind::Coroutine(did, _) => {
                        (format!("coroutine:{}", self.path(*did)), self.upvar_names(*did))
                    }
                    AggregateKind::CoroutineClosure(did, _) => {
                        (format!("coroutineclosure:{}", self.path(*did)), self.upvar_names(*did))
                    }
                    AggregateKind::RawPtr(..) => ("rawptr".into(), vec![]),
                };
                let opss: Vec<String> = ops.iter().map(|o| self.operand(owner, body, o)).collect();
                let fs: Vec<String> = fields.iter().map(|f| esc(f)).collect();
                format!(
                    "{{\"k\":\"agg\",\"ak\":{},\"ops\":[{}],\"fields\":[{}]}}",
                    esc(&ks),
                    opss.join(","),
                    fs.join(",")
                )
            }
            Rvalue::CopyForDeref(p) => {
                format!("{{\"k\":\"use\",\"op\":{{\"cp\":{}}}}}", self.place(body, p))
            }
            other => format!("{{\"k\":\"other\",\"dbg\":{}}}", esc(&format!("{:?}", other))),
        }
    }

    /// Clone the `mir_built` body before any other query can steal it (borrowck of a
    /// function is triggered as soon as an opaque `impl Future` type of it is revealed).
    fn clone_body(&self, def: LocalDefId) -> Option<Body<'tcx>> {
        let tcx = self.tcx;
        let kind = tcx.def_kind(def);
        if !matches!(
            kind,
            DefKind::Fn | DefKind::AssocFn | DefKind::Closure | DefKind::SyntheticCoroutineBody
        ) {
            return None;
        }
        let steal = tcx.mir_built(def);
        if steal.is_stolen() {
            self.stolen.borrow_mut().push(self.path(def.to_def_id()));
            return None;
        }
        let b = steal.borrow().clone();
        Some(b)
    }

    fn body_json(&self, def: LocalDefId, body: &Body<'tcx>) -> Option<String> {
        let tcx = self.tcx;
        let kind = tcx.def_kind(def);
        let did = def.to_def_id();
        let mut o = String::new();
        let (file, lo, hi, _) = self.span_info(tcx.def_span(did));
        let (_, blo, bhi, _) = self.span_info(body.span);
        let parent = if matches!(kind, DefKind::Closure | DefKind::SyntheticCoroutineBody) {
            esc(&self.path(tcx.typeck_root_def_id(did)))
        } else {
            "null".to_string()
        };
        let direct_parent = match tcx.opt_parent(did) {
            Some(p) => esc(&self.path(p)),
            None => "null".into(),
        };
        let vis = if matches!(kind, DefKind::Fn | DefKind::AssocFn) {
            format!("{:?}", tcx.visibility(did))
        } else {
            String::new()
        };
        let is_async = body.coroutine.is_some();
        let _ = write!(
            o,
            "{{\"path\":{},\"kind\":{},\"root\":{},\"parent\":{},\"file\":{},\"lo\":{},\"hi\":{},\"blo\":{},\"bhi\":{},\"vis\":{},\"coroutine\":{},\"argc\":{},",
            esc(&self.path(did)),
            esc(&format!("{:?}", kind)),
            parent,
            direct_parent,
            esc(&file),
            lo,
            hi,
            blo,
            bhi,
            esc(&vis),
            is_async,
            body.arg_count
        );
        // upvars
        if matches!(kind, DefKind::Closure) {
            let names: Vec<String> = self.upvar_names(did).iter().map(|s| esc(s)).collect();
            let _ = write!(o, "\"upvars\":[{}],", names.join(","));
        }
        // locals
        o.push_str("\"locals\":[");
        let mut names: Vec<Option<String>> = vec![None; body.local_decls.len()];
        for vdi in &body.var_debug_info {
            if let mir::VarDebugInfoContents::Place(p) = &vdi.value {
                if p.projection.is_empty() {
                    names[p.local.as_usize()] = Some(vdi.name.to_string());
                }
            }
        }
        for (i, (l, d)) in body.local_decls.iter_enumerated().enumerate() {
            if i > 0 {
                o.push(',');
            }
            let n = match &names[l.as_usize()] {
                Some(n) => esc(n),
                None => "null".into(),
            };
            let _ = write!(o, "{{\"ty\":{},\"n\":{}}}", esc(&self.ty_s(d.ty)), n);
        }
        o.push_str("],");
        // debug info for upvar-projected names
        o.push_str("\"dbg\":[");
        let mut first = true;
        for vdi in &body.var_debug_info {
            if let mir::VarDebugInfoContents::Place(p) = &vdi.value {
                if !p.projection.is_empty() {
                    if !first {
                        o.push(',');
                    }
                    first = false;
                    let _ = write!(o, "{{\"n\":{},\"place\":{}}}", esc(&vdi.name.to_string()), self.place(&body, p));
                }
            }
        }
        o.push_str("],");
        // blocks
        o.push_str("\"blocks\":[");
        for (bi, (_bb, data)) in body.basic_blocks.iter_enumerated().enumerate() {
            if bi > 0 {
                o.push(',');
            }
            if data.is_cleanup {
                o.push_str("{\"cleanup\":true,\"s\":[],\"t\":{\"k\":\"cleanup\"}}");
                continue;
            }
            o.push_str("{\"s\":[");
            let mut firsts = true;
            for st in &data.statements {
                let js = match &st.kind {
                    StatementKind::Assign(b) => {
                        let (p, rv) = &**b;
                        let (_, line, _, exp) = self.span_info(st.source_info.span);
                        Some(format!(
                            "{{\"k\":\"assign\",\"lhs\":{},\"rv\":{},\"line\":{},\"exp\":{}}}",
                            self.place(&body, p),
                            self.rvalue(def, &body, rv),
                            line,
                            esc(&exp)
                        ))
                    }
                    StatementKind::SetDiscriminant { place, variant_index } => Some(format!(
                        "{{\"k\":\"setdiscr\",\"lhs\":{},\"v\":{}}}",
                        self.place(&body, place),
                        variant_index.as_usize()
                    )),
                    StatementKind::StorageDead(l) => Some(format!("{{\"k\":\"dead\",\"l\":{}}}", l.as_usize())),
                    _ => None,
                };
                if let Some(js) = js {
                    if !firsts {
                        o.push(',');
                    }
                    firsts = false;
                    o.push_str(&js);
                }
            }
            o.push_str("],\"t\":");
            let term = data.terminator();
            let (_, line, _, exp) = self.span_info(term.source_info.span);
            let tj = match &term.kind {
                TerminatorKind::Goto { target } => format!("{{\"k\":\"goto\",\"target\":{}}}", target.as_usize()),
                TerminatorKind::SwitchInt { discr, targets } => {
                    let mut ts = String::new();
                    for (i, (v, t)) in targets.iter().enumerate() {
                        if i > 0 {
                            ts.push(',');
                        }
                        let _ = write!(ts, "[{},{}]", esc(&format!("{}", v)), t.as_usize());
                    }
                    format!(
                        "{{\"k\":\"switch\",\"op\":{},\"ty\":{},\"targets\":[{}],\"otherwise\":{}}}",
                        self.operand(def, &body, discr),
                        esc(&self.ty_s(discr.ty(&body.local_decls, tcx))),
                        ts,
                        targets.otherwise().as_usize()
                    )
                }
                TerminatorKind::Return => "{\"k\":\"return\"}".to_string(),
                TerminatorKind::Unreachable => "{\"k\":\"unreachable\"}".to_string(),
                TerminatorKind::UnwindResume | TerminatorKind::UnwindTerminate(_) => "{\"k\":\"unwind\"}".to_string(),
                TerminatorKind::Drop { place, target, .. } => format!(
                    "{{\"k\":\"drop\",\"place\":{},\"target\":{}}}",
                    self.place(&body, place),
                    target.as_usize()
                ),
                TerminatorKind::Call { func, args, destination, target, .. } => {
                    let f = self.operand(def, &body, func);
                    let a: Vec<String> = args.iter().map(|a| self.operand(def, &body, &a.node)).collect();
                    let gen = match func {
                        Operand::Constant(c) => match c.const_.ty().kind() {
                            ty::FnDef(_, ga) => format!("{:?}", ga),
                            _ => String::new(),
                        },
                        _ => String::new(),
                    };
                    let t = match target {
                        Some(t) => format!("{}", t.as_usize()),
                        None => "null".into(),
                    };
                    format!(
                        "{{\"k\":\"call\",\"f\":{},\"gen\":{},\"args\":[{}],\"dest\":{},\"target\":{}}}",
                        f,
                        esc(&gen),
                        a.join(","),
                        self.place(&body, destination),
                        t
                    )
                }
                TerminatorKind::TailCall { func, args, .. } => {
                    let f = self.operand(def, &body, func);
                    let a: Vec<String> = args.iter().map(|a| self.operand(def, &body, &a.node)).collect();
                    format!("{{\"k\":\"tailcall\",\"f\":{},\"args\":[{}]}}", f, a.join(","))
                }
                TerminatorKind::Assert { cond, expected, msg, target, .. } => {
                    let (mk, mops): (String, Vec<String>) = match &**msg {
                        mir::AssertKind::Overflow(op, a, b) => (
                            format!("Overflow({})", binop(*op)),
                            vec![self.operand(def, &body, a), self.operand(def, &body, b)],
                        ),
                        mir::AssertKind::OverflowNeg(a) => ("OverflowNeg".into(), vec![self.operand(def, &body, a)]),
                        mir::AssertKind::DivisionByZero(a) => ("DivisionByZero".into(), vec![self.operand(def, &body, a)]),
                        mir::AssertKind::RemainderByZero(a) => ("RemainderByZero".into(), vec![self.operand(def, &body, a)]),
                        mir::AssertKind::BoundsCheck { len, index } => (
                            "BoundsCheck".into(),
                            vec![self.operand(def, &body, len), self.operand(def, &body, index)],
                        ),
                        other => (format!("{:?}", other), vec![]),
                    };
                    format!(
                        "{{\"k\":\"assert\",\"cond\":{},\"expected\":{},\"msg\":{},\"ops\":[{}],\"target\":{}}}",
                        self.operand(def, &body, cond),
                        expected,
                        esc(&mk),
                        mops.join(","),
                        target.as_usize()
                    )
                }
                TerminatorKind::Yield { value, resume, drop, .. } => {
                    let d = match drop {
                        Some(d) => format!("{}", d.as_usize()),
                        None => "null".into(),
                    };
                    format!(
                        "{{\"k\":\"yield\",\"value\":{},\"target\":{},\"drop\":{}}}",
                        self.operand(def, &body, value),
                        resume.as_usize(),
                        d
                    )
                }
                TerminatorKind::CoroutineDrop => "{\"k\":\"codrop\"}".to_string(),
                TerminatorKind::FalseEdge { real_target, .. } => {
                    format!("{{\"k\":\"goto\",\"target\":{},\"false\":true}}", real_target.as_usize())
                }
                TerminatorKind::FalseUnwind { real_target, .. } => {
                    format!("{{\"k\":\"goto\",\"target\":{},\"false\":true}}", real_target.as_usize())
                }
                TerminatorKind::InlineAsm { .. } => "{\"k\":\"asm\"}".to_string(),
            };
            // splice line/exp into the terminator object
            let tj = format!("{},\"line\":{},\"exp\":{}}}", &tj[..tj.len() - 1], line, esc(&exp));
            o.push_str(&tj);
            o.push('}');
        }
        o.push_str("]}");
        Some(o)
    }

    // ---------------- HIR trees -----------------
    fn hir_json(&self, def: LocalDefId) -> Option<String> {
        let tcx = self.tcx;
        let kind = tcx.def_kind(def);
        if !matches!(kind, DefKind::Fn | DefKind::AssocFn) {
            return None;
        }
        let body = tcx.hir_body_owned_by(def);
        let tr = tcx.typeck(def);
        let mut h = Hx { cx: self, tr };
        let params: Vec<String> = body
            .params
            .iter()
            .map(|p| esc(&pat_name(p.pat)))
            .collect();
        Some(format!(
            "{{\"path\":{},\"params\":[{}],\"body\":{}}}",
            esc(&self.path(def.to_def_id())),
            params.join(","),
            h.expr(body.value)
        ))
    }
}

fn pat_name(p: &rustc_hir::Pat<'_>) -> String {
    use rustc_hir::PatKind;
    match p.kind {
        PatKind::Binding(_, _, ident, _) => ident.to_string(),
        PatKind::Tuple(ps, _) => {
            let v: Vec<String> = ps.iter().map(|p| pat_name(p)).collect();
            format!("({})", v.join(","))
        }
        PatKind::TupleStruct(_, ps, _) => {
            let v: Vec<String> = ps.iter().map(|p| pat_name(p)).collect();
            format!("T({})", v.join(","))
        }
        PatKind::Ref(p, ..) => pat_name(p),
        PatKind::Wild => "_".into(),
        _ => "?".into(),
    }
}

struct Hx<'a, 'tcx> {
    cx: &'a Cx<'tcx>,
    tr: &'tcx ty::TypeckResults<'tcx>,
}

impl<'a, 'tcx> Hx<'a, 'tcx> {
    fn res_path(&self, qp: &rustc_hir::QPath<'tcx>, id: rustc_hir::HirId) -> String {
        match self.tr.qpath_res(qp, id) {
            rustc_hir::def::Res::Def(_, did) => self.cx.path(did),
            rustc_hir::def::Res::Local(hid) => format!("local:{}", self.cx.tcx.hir_name(hid)),
            rustc_hir::def::Res::SelfCtor(_) => "Self".into(),
            r => format!("{:?}", r),
        }
    }
    fn line(&self, sp: Span) -> usize {
        let (_, l, _, _) = self.cx.span_info(sp);
        l
    }
    fn exprs(&mut self, es: &'tcx [rustc_hir::Expr<'tcx>]) -> String {
        let v: Vec<String> = es.iter().map(|e| self.expr(e)).collect();
        format!("[{}]", v.join(","))
    }
    fn ty_of(&self, e: &'tcx rustc_hir::Expr<'tcx>) -> String {
        match self.tr.expr_ty_opt(e) {
            Some(t) => format!("{}", t),
            None => String::new(),
        }
    }
    fn block(&mut self, b: &'tcx rustc_hir::Block<'tcx>) -> String {
        let mut items = vec![];
        for s in b.stmts {
            match s.kind {
                rustc_hir::StmtKind::Let(l) => {
                    let init = match l.init {
                        Some(e) => self.expr(e),
                        None => "null".into(),
                    };
                    let els = match l.els {
                        Some(b) => self.block(b),
                        None => "null".into(),
                    };
                    items.push(format!(
                        "{{\"k\":\"let\",\"pat\":{},\"init\":{},\"else\":{}}}",
                        esc(&pat_name(l.pat)),
                        init,
                        els
                    ));
                }
                rustc_hir::StmtKind::Expr(e) | rustc_hir::StmtKind::Semi(e) => items.push(self.expr(e)),
                rustc_hir::StmtKind::Item(_) => {}
            }
        }
        let tail = match b.expr {
            Some(e) => self.expr(e),
            None => "null".into(),
        };
        format!("{{\"k\":\"block\",\"stmts\":[{}],\"tail\":{}}}", items.join(","), tail)
    }
    fn expr(&mut self, e: &'tcx rustc_hir::Expr<'tcx>) -> String {
        use rustc_hir::ExprKind;
        let line = self.line(e.span);
        let exp = e.span.from_expansion();
        let tail = format!(",\"line\":{},\"exp\":{}}}", line, exp);
        let head = match e.kind {
            ExprKind::Call(f, args) => {
                let name = if let ExprKind::Path(ref qp) = f.kind {
                    esc(&self.res_path(qp, f.hir_id))
                } else {
                    "null".to_string()
                };
                let fe = if name == "null" { self.expr(f) } else { "null".into() };
                format!(
                    "{{\"k\":\"call\",\"f\":{},\"fe\":{},\"args\":{},\"ty\":{}",
                    name,
                    fe,
                    self.exprs(args),
                    esc(&self.ty_of(e))
                )
            }
            ExprKind::MethodCall(seg, recv, args, _) => {
                let name = self
                    .tr
                    .type_dependent_def_id(e.hir_id)
                    .map(|d| self.cx.path(d))
                    .unwrap_or_default();
                format!(
                    "{{\"k\":\"mcall\",\"m\":{},\"f\":{},\"recv\":{},\"args\":{},\"rty\":{}",
                    esc(&seg.ident.to_string()),
                    esc(&name),
                    self.expr(recv),
                    self.exprs(args),
                    esc(&self.ty_of(recv))
                )
            }
            ExprKind::Lit(l) => {
                let (t, v) = match l.node {
                    rustc_ast::LitKind::Str(s, _) => ("str", s.to_string()),
                    rustc_ast::LitKind::Int(i, _) => ("int", format!("{}", i.get())),
                    rustc_ast::LitKind::Bool(b) => ("bool", format!("{}", b)),
                    rustc_ast::LitKind::Char(c) => ("char", format!("{}", c)),
                    rustc_ast::LitKind::Byte(b) => ("byte", format!("{}", b)),
                    rustc_ast::LitKind::ByteStr(ref b, _) => ("bytes", String::from_utf8_lossy(b.as_byte_str()).to_string()),
                    _ => ("other", format!("{:?}", l.node)),
                };
                format!("{{\"k\":\"lit\",\"t\":{},\"v\":{}", esc(t), esc(&v))
            }
            ExprKind::Path(ref qp) => {
                format!("{{\"k\":\"path\",\"p\":{},\"ty\":{}", esc(&self.res_path(qp, e.hir_id)), esc(&self.ty_of(e)))
            }
            ExprKind::Tup(xs) => format!("{{\"k\":\"tuple\",\"args\":{}", self.exprs(xs)),
            ExprKind::Array(xs) => format!("{{\"k\":\"array\",\"args\":{}", self.exprs(xs)),
            ExprKind::Closure(c) => {
                let b = self.cx.tcx.hir_body(c.body);
                // closures share the typeck results of their root
                let params: Vec<String> = b.params.iter().map(|p| esc(&pat_name(p.pat))).collect();
                format!(
                    "{{\"k\":\"closure\",\"def\":{},\"params\":[{}],\"body\":{}",
                    esc(&self.cx.path(c.def_id.to_def_id())),
                    params.join(","),
                    self.expr(b.value)
                )
            }
            ExprKind::Block(b, _) => {
                let s = self.block(b);
                s[..s.len() - 1].to_string()
            }
            ExprKind::If(c, t, f) => {
                let fe = match f {
                    Some(f) => self.expr(f),
                    None => "null".into(),
                };
                format!("{{\"k\":\"if\",\"c\":{},\"t\":{},\"e\":{}", self.expr(c), self.expr(t), fe)
            }
            ExprKind::Match(s, arms, src) => {
                let a: Vec<String> = arms
                    .iter()
                    .map(|arm| {
                        let g = match arm.guard {
                            Some(g) => self.expr(g),
                            None => "null".into(),
                        };
                        format!(
                            "{{\"pat\":{},\"guard\":{},\"body\":{}}}",
                            esc(&self.pat_desc(arm.pat)),
                            g,
                            self.expr(arm.body)
                        )
                    })
                    .collect();
                format!(
                    "{{\"k\":\"match\",\"src\":{},\"scrut\":{},\"arms\":[{}]",
                    esc(&format!("{:?}", src)),
                    self.expr(s),
                    a.join(",")
                )
            }
            ExprKind::Binary(op, a, b) => format!(
                "{{\"k\":\"binary\",\"o\":{},\"a\":{},\"b\":{}",
                esc(op.node.as_str()),
                self.expr(a),
                self.expr(b)
            ),
            ExprKind::Unary(op, a) => format!("{{\"k\":\"unary\",\"o\":{},\"a\":{}", esc(&format!("{:?}", op)), self.expr(a)),
            ExprKind::AddrOf(_, _, a) => format!("{{\"k\":\"ref\",\"a\":{}", self.expr(a)),
            ExprKind::Field(a, id) => format!("{{\"k\":\"field\",\"a\":{},\"n\":{}", self.expr(a), esc(&id.to_string())),
            ExprKind::Struct(qp, fields, _) => {
                let fs: Vec<String> = fields
                    .iter()
                    .map(|f| format!("{{\"n\":{},\"v\":{}}}", esc(&f.ident.to_string()), self.expr(f.expr)))
                    .collect();
                format!(
                    "{{\"k\":\"struct\",\"p\":{},\"ty\":{},\"fields\":[{}]",
                    esc(&self.res_path(qp, e.hir_id)),
                    esc(&self.ty_of(e)),
                    fs.join(",")
                )
            }
            ExprKind::Ret(a) => {
                let x = match a {
                    Some(a) => self.expr(a),
                    None => "null".into(),
                };
                format!("{{\"k\":\"ret\",\"a\":{}", x)
            }
            ExprKind::Cast(a, _) => format!("{{\"k\":\"cast\",\"a\":{},\"ty\":{}", self.expr(a), esc(&self.ty_of(e))),
            ExprKind::DropTemps(a) => return self.expr(a),
            ExprKind::Assign(a, b, _) => format!("{{\"k\":\"assign\",\"a\":{},\"b\":{}", self.expr(a), self.expr(b)),
            ExprKind::AssignOp(op, a, b) => format!(
                "{{\"k\":\"assignop\",\"o\":{},\"a\":{},\"b\":{}",
                esc(op.node.as_str()),
                self.expr(a),
                self.expr(b)
            ),
            ExprKind::Index(a, b, _) => format!("{{\"k\":\"index\",\"a\":{},\"b\":{}", self.expr(a), self.expr(b)),
            ExprKind::Loop(b, _, src, _) => {
                let s = self.block(b);
                format!("{{\"k\":\"loop\",\"src\":{},\"body\":{}", esc(&format!("{:?}", src)), s)
            }
            ExprKind::Break(_, a) => {
                let x = match a {
                    Some(a) => self.expr(a),
                    None => "null".into(),
                };
                format!("{{\"k\":\"break\",\"a\":{}", x)
            }
            ExprKind::Continue(_) => "{\"k\":\"continue\"".to_string(),
            ExprKind::Let(l) => format!(
                "{{\"k\":\"letexpr\",\"pat\":{},\"init\":{}",
                esc(&self.pat_desc(l.pat)),
                self.expr(l.init)
            ),
            ExprKind::Yield(a, _) => format!("{{\"k\":\"yield\",\"a\":{}", self.expr(a)),
            ExprKind::Use(a, _) => return self.expr(a),
            ExprKind::Type(a, _) => return self.expr(a),
            ExprKind::Repeat(a, _) => format!("{{\"k\":\"repeat\",\"a\":{}", self.expr(a)),
            _ => format!("{{\"k\":\"other\",\"dbg\":{}", esc(&format!("{:?}", std::mem::discriminant(&e.kind)))),
        };
        format!("{}{}", head, tail)
    }
    fn pat_desc(&self, p: &'tcx rustc_hir::Pat<'tcx>) -> String {
        use rustc_hir::PatKind;
        match p.kind {
            PatKind::Binding(_, _, ident, sub) => match sub {
                Some(s) => format!("{}@{}", ident, self.pat_desc(s)),
                None => ident.to_string(),
            },
            PatKind::Tuple(ps, _) => {
                let v: Vec<String> = ps.iter().map(|p| self.pat_desc(p)).collect();
                format!("({})", v.join(","))
            }
            PatKind::TupleStruct(ref qp, ps, _) => {
                let v: Vec<String> = ps.iter().map(|p| self.pat_desc(p)).collect();
                format!("{}({})", self.res_path(qp, p.hir_id), v.join(","))
            }
            PatKind::Struct(ref qp, fs, _) => {
                let v: Vec<String> = fs.iter().map(|f| format!("{}:{}", f.ident, self.pat_desc(f.pat))).collect();
                format!("{}{{{}}}", self.res_path(qp, p.hir_id), v.join(","))
            }
            PatKind::Expr(pe) => match pe.kind {
                rustc_hir::PatExprKind::Path(ref qp) => self.res_path(qp, pe.hir_id),
                rustc_hir::PatExprKind::Lit { lit, negated } => {
                    format!("lit:{}{:?}", if negated { "-" } else { "" }, lit.node)
                }
                #[allow(unreachable_patterns)]
                _ => "patexpr".into(),
            },
            PatKind::Or(ps) => {
                let v: Vec<String> = ps.iter().map(|p| self.pat_desc(p)).collect();
                v.join("|")
            }
            PatKind::Ref(p, ..) => format!("&{}", self.pat_desc(p)),
            PatKind::Wild => "_".into(),
            PatKind::Range(..) => "range".into(),
            _ => "?".into(),
        }
    }
}

fn binop(op: BinOp) -> String {
    format!("{:?}", op)
}

struct Cb;

impl rustc_driver::Callbacks for Cb {
    fn after_expansion<'tcx>(
        &mut self,
        _c: &rustc_interface::interface::Compiler,
        tcx: TyCtxt<'tcx>,
    ) -> Compilation {
        let dir = match std::env::var("SV_FACTS_DIR") {
            Ok(d) => d,
            Err(_) => return Compilation::Continue,
        };
        let krate = tcx.crate_name(rustc_span::def_id::LOCAL_CRATE).to_string();
        // only workspace crates of interest
        let want = std::env::var("SV_CRATES").unwrap_or_default();
        if !want.is_empty() && !want.split(',').any(|w| w == krate) {
            return Compilation::Continue;
        }
        let crate_types: Vec<String> = tcx.crate_types().iter().map(|t| format!("{:?}", t)).collect();
        let is_test = tcx.sess.opts.test;
        let cx = Cx { tcx, named: Default::default(), stolen: Default::default() };
        let mut out = String::new();
        let _ = write!(
            out,
            "{{\"crate\":{},\"crate_types\":{},\"test\":{},\"bodies\":[",
            esc(&krate),
            esc(&crate_types.join(",")),
            is_test
        );
        let mut first = true;
        let mut n_bodies = 0usize;
        // const fns first: building other bodies may const-evaluate (and steal) them
        let owners: Vec<LocalDefId> = tcx.hir_body_owners().collect();
        let (cf, rest): (Vec<LocalDefId>, Vec<LocalDefId>) = owners.iter().partition(|d| {
            matches!(tcx.def_kind(**d), DefKind::Fn | DefKind::AssocFn) && tcx.is_const_fn(d.to_def_id())
        });
        let mut cloned: Vec<(LocalDefId, Body<'tcx>)> = Vec::new();
        for def in cf.into_iter().chain(rest.into_iter()) {
            if let Some(b) = cx.clone_body(def) {
                cloned.push((def, b));
            }
        }
        for (def, body) in cloned.iter() {
            let def = *def;
            if let Some(j) = cx.body_json(def, body) {
                if !first {
                    out.push(',');
                }
                first = false;
                out.push_str(&j);
                n_bodies += 1;
            }
        }
        out.push_str("],\"stolen\":[");
        let st: Vec<String> = cx.stolen.borrow().iter().map(|s| esc(s)).collect();
        out.push_str(&st.join(","));
        out.push_str("],\"consts\":[");
        let mut first = true;
        for d in cx.named.borrow().iter() {
            if tcx.generics_of(*d).count() != 0 {
                continue;
            }
            if !matches!(tcx.def_kind(*d), DefKind::Const { .. } | DefKind::AssocConst { .. }) {
                continue;
            }
            let t = tcx.type_of(*d).instantiate_identity().skip_norm_wip();
            // a named `&str` constant: the literal it evaluates to (file-name tables are compared by value). Evaluated here, after every
            // body has been dumped: const evaluation may run borrowck, which consumes (steals) the mir_built of bodies not dumped yet.
            if let ty::Ref(_, inner, _) = t.kind() {
                if inner.is_str() {
                    if let Ok(v) = tcx.const_eval_poly(*d) {
                        if !first {
                            out.push(',');
                        }
                        first = false;
                        let _ = write!(out, "{{\"path\":{},\"sv\":{}}}", esc(&cx.path(*d)), esc(&format!("{}", mir::Const::Val(v, t))));
                    }
                }
                continue;
            }
            if !matches!(t.kind(), ty::Int(_) | ty::Uint(_) | ty::Bool) {
                continue;
            }
            if let Ok(v) = tcx.const_eval_poly(*d) {
                if let Some(si) = v.try_to_scalar_int() {
                    let size = si.size();
                    let v: i128 = match t.kind() {
                        ty::Int(_) => si.to_int(size),
                        _ => si.to_uint(size) as i128,
                    };
                    if !first {
                        out.push(',');
                    }
                    first = false;
                    let _ = write!(out, "{{\"path\":{},\"v\":{}}}", esc(&cx.path(*d)), esc(&format!("{}", v)));
                }
            }
        }
        let mut hir_out = String::from("{\"hir\":[");
        let mut first = true;
        for def in tcx.hir_body_owners() {
            if let Some(j) = cx.hir_json(def) {
                if !first {
                    hir_out.push(',');
                }
                first = false;
                hir_out.push_str(&j);
            }
        }
        hir_out.push_str("]}");
        out.push_str("],\"adts\":[");
        let mut first = true;
        for id in tcx.hir_free_items() {
            let did = id.owner_id.to_def_id();
            let k = tcx.def_kind(did);
            if !matches!(k, DefKind::Struct | DefKind::Enum | DefKind::Union) {
                continue;
            }
            let adt = tcx.adt_def(did);
            if !first {
                out.push(',');
            }
            first = false;
            let mut vs = vec![];
            for v in adt.variants() {
                let fs: Vec<String> = v
                    .fields
                    .iter()
                    .map(|f| {
                        let t = tcx.type_of(f.did).instantiate_identity().skip_norm_wip();
                        format!(
                            "{{\"n\":{},\"ty\":{},\"vis\":{}}}",
                            esc(&f.name.to_string()),
                            esc(&format!("{}", t)),
                            esc(&format!("{:?}", f.vis))
                        )
                    })
                    .collect();
                vs.push(format!("{{\"n\":{},\"fields\":[{}]}}", esc(&v.name.to_string()), fs.join(",")));
            }
            let (file, lo, _, _) = cx.span_info(tcx.def_span(did));
            let _ = write!(
                out,
                "{{\"path\":{},\"kind\":{},\"file\":{},\"line\":{},\"vis\":{},\"variants\":[{}]}}",
                esc(&cx.path(did)),
                esc(&format!("{:?}", k)),
                esc(&file),
                lo,
                esc(&format!("{:?}", tcx.visibility(did))),
                vs.join(",")
            );
        }
        out.push_str("],\"impls\":[");
        let mut first = true;
        for id in tcx.hir_free_items() {
            let did = id.owner_id.to_def_id();
            if !matches!(tcx.def_kind(did), DefKind::Impl { .. }) {
                continue;
            }
            let self_ty = tcx.type_of(did).instantiate_identity().skip_norm_wip();
            let tr = if matches!(tcx.def_kind(did), DefKind::Impl { of_trait: true }) {
                let t = tcx.impl_trait_ref(did).instantiate_identity().skip_norm_wip();
                esc(&format!("{}", t.print_only_trait_path()))
            } else {
                "null".to_string()
            };
            let mut ms = vec![];
            for it in tcx.associated_items(did).in_definition_order() {
                if matches!(it.kind, ty::AssocKind::Fn { .. }) {
                    let trait_item = match it.trait_item_def_id() {
                        Some(t) => esc(&cx.path(t)),
                        None => "null".into(),
                    };
                    ms.push(format!("{{\"path\":{},\"trait_item\":{}}}", esc(&cx.path(it.def_id)), trait_item));
                }
            }
            if !first {
                out.push(',');
            }
            first = false;
            let _ = write!(
                out,
                "{{\"self\":{},\"trait\":{},\"methods\":[{}]}}",
                esc(&format!("{}", self_ty)),
                tr,
                ms.join(",")
            );
        }
        out.push_str("],\"docs\":[");
        // doc comments of local items (documentation is only available as text)
        let mut first = true;
        for id in tcx.hir_free_items() {
            let did = id.owner_id.to_def_id();
            let mut doc = String::new();
            for attr in tcx.get_all_attrs(did) {
                if let Some((s, _)) = attr.doc_str_and_fragment_kind() {
                    doc.push_str(s.as_str());
                    doc.push('\n');
                }
            }
            if doc.is_empty() {
                continue;
            }
            if !first {
                out.push(',');
            }
            first = false;
            let _ = write!(out, "{{\"path\":{},\"doc\":{}}}", esc(&cx.path(did)), esc(&doc));
        }
        out.push_str("]}");
        let kind = if is_test { "test" } else if crate_types.iter().any(|c| c == "Executable") { "bin" } else { "lib" };
        let fname = format!("{}/{}-{}.json", dir, krate, kind);
        let tmp = format!("{}.tmp{}", fname, std::process::id());
        let hname = format!("{}/{}-{}.hir.json", dir, krate, kind);
        let htmp = format!("{}.tmp{}", hname, std::process::id());
        std::fs::write(&htmp, hir_out.as_bytes()).expect("write hir facts");
        std::fs::rename(&htmp, &hname).expect("rename hir facts");
        std::fs::write(&tmp, out.as_bytes()).expect("write facts");
        std::fs::rename(&tmp, &fname).expect("rename facts");
        eprintln!("sv-driver: {} bodies={} -> {}", krate, n_bodies, fname);
        Compilation::Continue
    }
}

fn main() {
    let mut args: Vec<String> = std::env::args().collect();
    args.remove(1); // drop the rustc path inserted by cargo
    rustc_driver::run_compiler(&args, &mut Cb);
}
