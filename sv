#!/usr/bin/env python3
"""sv - static verification driver for the sierradb properties.

  ./sv setup                      build the fact extractor and warm the dependency cache
  ./sv check C07 [--tier quick|thorough]
  ./sv dump <regex> [--full]      pretty-print extracted MIR (debugging aid)
  ./sv facts                      print the facts directory for the current /repo tree
"""
import importlib
import os
import sys

HERE = os.path.dirname(os.path.abspath(__file__))
sys.path.insert(0, HERE)
os.environ.setdefault("CARGO_NET_OFFLINE", "true")

from rules import extract, facts, report  # noqa: E402


def cmd_setup():
    extract.build_driver()
    d = extract.facts_dir(verbose=True)
    print("sv: driver built, facts at", d)
    # controls and witness crates are built lazily by the checks that use them
    try:
        from rules import controls
        controls.facts_dir(verbose=True)
    except ImportError:
        pass
    return 0


def cmd_check(pid, tier):
    pid = pid.upper()
    try:
        mod = importlib.import_module("rules.props." + pid.lower())
    except ImportError as e:
        print("sv: no check for", pid, e)
        return 3
    chk = report.Check(pid, tier)
    try:
        d = extract.facts_dir()
        kw = mod.run(chk, d, tier) or {}
    except facts.Inconclusive as e:
        chk.inconc(str(e))
        kw = {}
    except SystemExit as e:      # the tree does not build, or fact files are missing: nothing can be decided (fail closed, not a violation)
        chk.inconc(str(e))
        kw = {}
    except Exception as e:  # a shape the rule code did not foresee: fail closed, never crash silently
        import traceback
        tb = traceback.format_exc().strip().splitlines()
        chk.inconc("rule engine error (%s: %s) at %s" % (type(e).__name__, e, tb[-3].strip() if len(tb) >= 3 else ""))
        kw = {}
    if tier == "thorough" and not chk.inconclusive:
        selftest(chk, pid)
    return report.finish(chk, **kw)


def selftest(chk, pid):
    """thorough tier: the checker's own sensitivity and specificity on this property, decided on scratch copies of /repo:
    every stored mutant / seeded change / reverted fix must be reported, every behaviour-preserving control must be silent"""
    sys.path.insert(0, os.path.join(HERE, "tools"))
    import run_mutants
    chk.rule("SELFTEST", "every stored mutant (mutants/%s/*.patch), every seeded change (seeded/*/patch.diff claimed for this property) and every reverted fix: commit is applied to a "
                         "scratch copy of the current tree and must make this check report a violation; every behaviour-preserving control (controls/%s/*.patch) must leave it silent" % (pid, pid))
    res = run_mutants.selftest(pid)
    for (_, name, status, detail) in res:
        if status in ("caught", "silent"):
            chk.ok("SELFTEST", "%s: %s (%s)" % (name, status, detail[:120]), "")
        else:
            chk.obligations.append(("SELFTEST", "%s: %s" % (name, status), False, ""))
            chk.inconc("self-test: %s is %s - the checker, not the repository, is at fault (%s)" % (name, status, detail[:160]))
    chk.floors["SELFTEST"] = (len(res), 1)


def cmd_dump(rx, full, nomacro=False):
    from rules import dump
    d = extract.facts_dir()
    dump.dump(d, rx, full, nomacro)
    return 0


def main(argv):
    if len(argv) < 2:
        print(__doc__)
        return 3
    c = argv[1]
    if c == "setup":
        return cmd_setup()
    if c == "facts":
        print(extract.facts_dir(verbose=True))
        return 0
    if c == "check":
        tier = os.environ.get("VERIF_TIER", "quick")
        if "--tier" in argv:
            tier = argv[argv.index("--tier") + 1]
        return cmd_check(argv[2], tier)
    if c == "dump":
        return cmd_dump(argv[2], "--full" in argv, "--nomacro" in argv)
    print(__doc__)
    return 3


if __name__ == "__main__":
    sys.exit(main(sys.argv))
