#!/usr/bin/env python3
"""Regenerate /verif/MANIFEST.json from rules/registry.py (single source of truth)."""
import json
import os
import sys

HERE = os.path.dirname(os.path.dirname(os.path.abspath(__file__)))
sys.path.insert(0, HERE)
from rules import registry  # noqa: E402

def _fix_commits():
    import subprocess
    try:
        out = subprocess.check_output(["git", "-C", "/repo", "log", "--reverse", "--format=%h %s", "5c0d3d9..HEAD"], text=True)
        return [l.split()[0] for l in out.splitlines() if l.split(" ", 1)[1].startswith("fix:")]
    except Exception:
        return registry.SOURCE_COMMITS


ids = [json.loads(l)["id"] for l in open(os.path.join(HERE, "properties.jsonl"))]
checks = []
na = []
for pid in ids:
    e = registry.CHECKS.get(pid)
    if e is None:
        na.append({"property_id": pid, "reason": registry.NOT_APPLICABLE.get(pid, "check not built yet")})
        continue
    checks.append({
        "property_id": pid,
        "quick_cmd": "./sv check %s --tier quick" % pid,
        "thorough_cmd": "./sv check %s --tier thorough" % pid,
        "evidence_file": "/verif/evidence/%s.json" % pid,
        "replay_cmd_template": "cat {path}",
        "engine": "sv",
        "level_claimed": {"category": e.get("category", "other"), "text": e["text"], "design_ref": e.get("design_ref", "DESIGN.md section 5, " + pid)},
        "level_note": e["note"],
        "technique": e["technique"],
    })
m = {
    "version": 1,
    "setup_cmd": "./sv setup",
    "hooks": {
        "guard": "sierra_db_sierradb_verif",
        "enable": "no hooks: the checks analyse the unmodified source through a rustc_private driver; nothing in /repo is cfg-guarded",
        "baseline_off_cmd": "cd /repo && cargo test --workspace --no-fail-fast --offline",
        "source_commits": _fix_commits(),
        "add_only": True,
    },
    "engines": [
        {"name": "sv", "path": "/verif/sv", "serves_properties": [c["property_id"] for c in checks],
         "kind_free_text": "static analysis: rustc_private fact extractor (mir_built CFGs, HIR trees, ADTs) over /repo's working tree + Python rule engine "
                           "(dominance / must-pass, who-may-call, gate normalisation, panic audit with intervals, bit provenance, grammar analysis, sibling normal forms)"},
    ],
    "checks": checks,
    "notes": registry.NOTES,
    "not_applicable": na,
}
with open(os.path.join(HERE, "MANIFEST.json"), "w") as fh:
    json.dump(m, fh, indent=1)
print("MANIFEST.json: %d checks, %d not applicable" % (len(checks), len(na)))
