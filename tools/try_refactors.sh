#!/bin/bash
# usage: tools/try_refactors.sh <ID> [more check ids]   -- runs the property's check on every /tmp/refac/<ID>/out/refactor_*.patch
ID=$1; shift
for p in /tmp/refac/$ID/out/refactor_*.patch; do
  n=$(basename $p .patch)
  out=$(tools/mutcheck.sh -p $p $ID "$@" 2>&1 | grep -v "^KNOWN")
  if echo "$out" | grep -q "VIOLATION\|INCONCLUSIVE\|error"; then
    echo "== $ID $n: ALARM"; echo "$out" | grep "violation:\|INCONCLUSIVE\|error" | cut -c1-330 | head -4
  else
    echo "== $ID $n: silent"
  fi
done
