#!/usr/bin/env python3
"""Insert the 'which checks catch which changes' table into DESIGN.md from the last full self-test run
(/var/tmp/sv-mut/mutants_result.json, written by tools/run_mutants.py) and the seeded/*/meta.json files."""
import json
import os
import re
import sys

VERIF = os.path.dirname(os.path.dirname(os.path.abspath(__file__)))
import glob
files = sys.argv[1:] or ["/var/tmp/sv-mut/mutants_result.json"]
merged = {}
for f in files:                      # later files override earlier ones per (check, change)
    for pid, name, status, detail in json.load(open(f)):
        merged[(pid, name)] = (pid, name, status, detail)
res = list(merged.values())
for d in sorted(glob.glob(os.path.join(VERIF, "seeded", "*", "meta.json"))):
    m = json.load(open(d))
    if not m.get("checked_by", [m.get("property")]):
        res.append((m["property"], "seeded/" + os.path.basename(os.path.dirname(d)), "not decided", m.get("not_caught", "")[:160]))
rows = []
for pid, name, status, detail in res:
    m = re.search(r"\[(\w[\w.\/]*)\]", detail)
    rule = m.group(1) if m else ""
    what = ""
    if name.startswith("seeded/"):
        mp = os.path.join(VERIF, name, "meta.json")
        if os.path.exists(mp):
            what = json.load(open(mp)).get("summary", "")
    what = what.replace("|", "/")
    if len(what) > 230:
        what = what[:227] + "..."
    rows.append((pid, name.replace(".patch", ""), status, rule, what))
benign = [r for r in rows if r[1].startswith("benign/")]
rows = [r for r in rows if not r[1].startswith("benign/")]
rows.sort(key=lambda r: (r[0], not r[1].startswith("seeded/"), r[1]))
out = ["| check | change | result | first rule reporting | what the change does (seeds) |", "|---|---|---|---|---|"]
for r in rows:
    out.append("| %s | `%s` | %s | %s | %s |" % r)
out.append("")
out.append("Behaviour-preserving controls (`controls/<id>/*.patch`; `agent_*` = written by sub-agents, the rest by me), silent / total per check:")
per = {}
for r in benign:
    k = per.setdefault(r[0], [0, 0])
    k[1] += 1
    if r[2] == "silent":
        k[0] += 1
out.append(", ".join("%s %d/%d" % (k, v[0], v[1]) for k, v in sorted(per.items())) + ".")
rows = rows + benign
n = len(rows)
caught = sum(1 for r in rows if r[2] in ("caught", "silent"))
undecided = sum(1 for r in rows if r[2] == "not decided")
out.append("")
out.append("%d changes: %d reported (or, for `benign/` controls, correctly silent), %d outside what the property's check decides (listed as `not decided`), %d missed." % (n, caught, undecided, n - caught - undecided))
p = os.path.join(VERIF, "DESIGN.md")
s = open(p).read()
a = s.index("<!-- CATCH-TABLE-BEGIN -->") + len("<!-- CATCH-TABLE-BEGIN -->")
b = s.index("<!-- CATCH-TABLE-END -->")
s = s[:a] + "\n" + "\n".join(out) + "\n" + s[b:]
open(p, "w").write(s)
print("table: %d rows, %d ok" % (n, caught))
