#!/usr/bin/env python3
"""Insert the 'which checks catch which changes' table into DESIGN.md from the last full self-test run
(/var/tmp/sv-mut/mutants_result.json, written by tools/run_mutants.py) and the seeded/*/meta.json files."""
import json
import os
import re
import sys

VERIF = os.path.dirname(os.path.dirname(os.path.abspath(__file__)))
res = json.load(open(sys.argv[1] if len(sys.argv) > 1 else "/var/tmp/sv-mut/mutants_result.json"))
rows = []
for pid, name, status, detail in res:
    m = re.search(r"\[(\w[\w.\/]*)\]", detail)
    rule = m.group(1) if m else ""
    what = ""
    if name.startswith("seeded/"):
        mp = os.path.join(VERIF, name, "meta.json")
        if os.path.exists(mp):
            what = json.load(open(mp)).get("summary", "")
    what = what.replace("|", "/")
    if len(what) > 230:
        what = what[:227] + "..."
    rows.append((pid, name.replace(".patch", ""), status, rule, what))
rows.sort(key=lambda r: (r[0], not r[1].startswith("seeded/"), r[1]))
out = ["| check | change | result | first rule reporting | what the change does (seeds) |", "|---|---|---|---|---|"]
for r in rows:
    out.append("| %s | `%s` | %s | %s | %s |" % r)
n = len(rows)
caught = sum(1 for r in rows if r[2] in ("caught", "silent"))
out.append("")
out.append("%d changes, %d reported (or, for `benign/` controls, correctly silent), %d not." % (n, caught, n - caught))
p = os.path.join(VERIF, "DESIGN.md")
s = open(p).read()
a = s.index("<!-- CATCH-TABLE-BEGIN -->") + len("<!-- CATCH-TABLE-BEGIN -->")
b = s.index("<!-- CATCH-TABLE-END -->")
s = s[:a] + "\n" + "\n".join(out) + "\n" + s[b:]
open(p, "w").write(s)
print("table: %d rows, %d ok" % (n, caught))
