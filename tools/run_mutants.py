#!/usr/bin/env python3
"""Self-test of the checkers: apply every stored mutant (mutants/<ID>/*.patch, seeded/<name>/patch.diff,
and `revert:<commit>` lines in mutants/<ID>/reverts.txt) to a scratch copy of /repo and run the property's
check there. Each mutant must make the check exit 1 with a VIOLATION line.

usage: tools/run_mutants.py [ID ...]     (default: all)
Scratch copy and evidence go to /var/tmp/sv-mut and are removed afterwards.
"""
import glob
import json
import os
import shutil
import subprocess
import sys

VERIF = os.path.dirname(os.path.dirname(os.path.abspath(__file__)))
S = os.environ.get("SV_MUT_SCRATCH", "/var/tmp/sv-mut")
TARGET = os.environ.get("SV_MUT_TARGET", os.path.join(VERIF, ".cache", "target-mut"))


def sh(cmd, **kw):
    return subprocess.run(cmd, shell=True, stdout=subprocess.PIPE, stderr=subprocess.STDOUT, text=True, **kw)


def fresh_copy():
    shutil.rmtree(S + "/repo", ignore_errors=True)
    os.makedirs(S + "/repo", exist_ok=True)
    os.makedirs(S + "/evidence", exist_ok=True)
    r = sh("rsync -a --delete --exclude target --exclude .git /repo/ %s/repo/" % S)
    assert r.returncode == 0, r.stdout


def run_check(pid):
    env = dict(os.environ, SV_REPO=S + "/repo", SV_TARGET_DIR=TARGET, SV_EVIDENCE_DIR=S + "/evidence")
    r = subprocess.run([VERIF + "/sv", "check", pid, "--tier", "quick"], cwd=VERIF, env=env, stdout=subprocess.PIPE, stderr=subprocess.STDOUT, text=True)
    return r.returncode, r.stdout


def benign_for(pid):
    return [("patch", p, "benign/" + os.path.basename(p)) for p in sorted(glob.glob(os.path.join(VERIF, "controls", pid, "*.patch")))]


def selftest(pid, verbose=False):
    """-> list of (pid, name, status, detail); status in caught / MISSED / INCONCLUSIVE / PATCH-FAILED / silent / FALSE-ALARM"""
    import fcntl
    os.makedirs(S, exist_ok=True)
    lock = open(S + ".lock", "w")
    fcntl.flock(lock, fcntl.LOCK_EX)     # one self-test at a time: they share the scratch copy and its target dir
    results = []
    for kind, arg, name in mutants_for(pid) + benign_for(pid):
        fresh_copy()
        if kind == "patch":
            r = sh("patch -p1 -s < %s" % arg, cwd=S + "/repo")
        else:
            r = sh("git -C /repo show %s | patch -R -p1 -s" % arg, cwd=S + "/repo")
        if r.returncode != 0:
            results.append((pid, name, "PATCH-FAILED", r.stdout.strip()[:200]))
            continue
        code, out = run_check(pid)
        viol = [l for l in out.splitlines() if l.strip().startswith("violation:")]
        if name.startswith("benign/"):
            status = "silent" if code == 0 else ("FALSE-ALARM" if code == 1 else "INCONCLUSIVE")
        else:
            status = "caught" if code == 1 and "VIOLATION property=%s" % pid in out else ("INCONCLUSIVE" if code == 2 else "MISSED")
        results.append((pid, name, status, (viol[0].strip()[:220] if viol else out.strip().splitlines()[-1][:220])))
        if verbose:
            print("%-4s %-60s %s\n      %s" % results[-1], flush=True)
    shutil.rmtree(S + "/repo", ignore_errors=True)
    fcntl.flock(lock, fcntl.LOCK_UN)
    lock.close()
    return results


def mutants_for(pid):
    out = []
    for p in sorted(glob.glob(os.path.join(VERIF, "mutants", pid, "*.patch"))):
        out.append(("patch", p, os.path.basename(p)))
    rv = os.path.join(VERIF, "mutants", pid, "reverts.txt")
    if os.path.exists(rv):
        for line in open(rv):
            line = line.strip()
            if line and not line.startswith("#"):
                c = line.split()[0]
                out.append(("revert", c, "revert " + line))
    for d in sorted(glob.glob(os.path.join(VERIF, "seeded", "*"))):
        mp = os.path.join(d, "meta.json")
        if os.path.exists(mp):
            m = json.load(open(mp))
            if pid in m.get("checked_by", [m.get("property")]):
                out.append(("patch", os.path.join(d, "patch.diff"), "seeded/" + os.path.basename(d)))
    return out


def main():
    args = sys.argv[1:]
    jobs = 1
    if args and args[0].startswith("-j"):
        jobs = int(args[0][2:] or args[1])
        args = args[1:] if len(args[0]) > 2 else args[2:]
    if jobs > 1:
        return main_parallel(jobs, [a.upper() for a in args])
    ids = [a.upper() for a in args]
    if not ids:
        ids = sorted({os.path.basename(d) for d in glob.glob(os.path.join(VERIF, "mutants", "C*")) + glob.glob(os.path.join(VERIF, "controls", "C*"))})
    results = []
    for pid in ids:
        results += selftest(pid, verbose=True)
    missed = [r for r in results if r[2] not in ("caught", "silent")]
    print("\n%d mutants, %d caught, %d not caught" % (len(results), len(results) - len(missed), len(missed)))
    with open(os.path.join(S, "mutants_result.json"), "w") as fh:
        json.dump(results, fh, indent=1)
    return 1 if missed else 0


def main_parallel(jobs, ids):
    """split the property ids over `jobs` worker processes, each with its own scratch copy and cargo target directory"""
    if not ids:
        ids = sorted({os.path.basename(d) for d in glob.glob(os.path.join(VERIF, "mutants", "C*")) + glob.glob(os.path.join(VERIF, "controls", "C*"))})
    weight = {i: len(mutants_for(i)) + len(benign_for(i)) for i in ids}
    buckets = [[] for _ in range(jobs)]
    for i in sorted(ids, key=lambda x: -weight[x]):
        min(buckets, key=lambda b: sum(weight[x] for x in b)).append(i)
    procs = []
    for k, b in enumerate(buckets):
        if not b:
            continue
        env = dict(os.environ, SV_MUT_SCRATCH="/var/tmp/sv-mut-w%d" % k, SV_MUT_TARGET=os.path.join(VERIF, ".cache", "target-mut-w%d" % k))
        procs.append((k, subprocess.Popen([sys.executable, os.path.abspath(__file__)] + b, env=env, stdout=open("/var/tmp/sv-mut-w%d.log" % k, "w"), stderr=subprocess.STDOUT)))
    rc = 0
    for k, p in procs:
        rc |= p.wait()
    results = []
    for k, p in procs:
        f = "/var/tmp/sv-mut-w%d/mutants_result.json" % k
        if os.path.exists(f):
            results += json.load(open(f))
    os.makedirs(S, exist_ok=True)
    with open(os.path.join(S, "mutants_result.json"), "w") as fh:
        json.dump(results, fh, indent=1)
    bad = [r for r in results if r[2] not in ("caught", "silent")]
    print("%d changes, %d ok, %d not" % (len(results), len(results) - len(bad), len(bad)))
    for r in bad:
        print("  ", r[0], r[1], r[2], r[3][:160])
    return 1 if bad or rc else 0


if __name__ == "__main__":
    sys.exit(main())
