#!/bin/bash
# usage: tools/confirm_seed.sh <ID> <seed-name> <crate> <test-name> [extra cargo args]
# Confirms a sub-agent's seeded change in its own worktree /tmp/seed/<ID>/repo:
#   1. demo test passes on the unchanged tree   2. fails with patch.diff applied
# then copies patch + demo + meta into /verif/seeded/<seed-name>/ and prints the outcome.
# The demo test file(s) are expected to be already present (untracked) in the worktree.
set -u
ID=$1; NAME=$2; CRATE=$3; TEST=$4; shift 4
BASE=${SEED_BASE:-/tmp/seed}
WT=$BASE/$ID/repo
OUT=$BASE/$ID/out
cd $WT || exit 2
export TMPDIR=$BASE/$ID/tmp; mkdir -p $TMPDIR
git checkout -q -- .
echo "== unchanged tree"
cargo test --offline -j 8 -p $CRATE --test $TEST "$@" 2>&1 | grep -E "^test |test result|error" | tail -8
R0=${PIPESTATUS[0]}
git apply $OUT/patch.diff || { echo "patch does not apply"; exit 2; }
echo "== with patch"
cargo test --offline -j 8 -p $CRATE --test $TEST "$@" 2>&1 | grep -E "^test |test result|panicked|error" | tail -8
R1=${PIPESTATUS[0]}
echo "== existing tests of $CRATE with the patch (lib + doc; demo excluded)"
cargo test --offline -j 8 -p $CRATE --lib 2>&1 | grep -E "test result|FAILED|failed" | tail -4
R2=${PIPESTATUS[0]}
git checkout -q -- .
rm -rf $TMPDIR
echo "unchanged exit=$R0 patched exit=$R1 existing-lib-tests-with-patch exit=$R2"
if [ "$R0" = "0" ] && [ "$R1" != "0" ] && [ "$R2" = "0" ]; then
  mkdir -p /verif/seeded/$NAME
  cp $OUT/patch.diff /verif/seeded/$NAME/patch.diff
  rm -rf /verif/seeded/$NAME/demo; cp -r $OUT/demo /verif/seeded/$NAME/demo
  cp $OUT/meta.json /verif/seeded/$NAME/agent_meta.json
  echo "CONFIRMED -> /verif/seeded/$NAME"
else
  echo "NOT CONFIRMED"
fi
