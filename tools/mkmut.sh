#!/bin/bash
# usage: tools/mkmut.sh <ID> <name> <file> <python-substitution-old> <new>
# Creates mutants/<ID>/<name>.patch from a single textual substitution in the scratch repo /var/tmp/mk/repo.
set -e
ID=$1; NAME=$2; FILE=$3; OLD=$4; NEW=$5
cd /var/tmp/mk/repo
git checkout -q -- .
python3 - "$FILE" "$OLD" "$NEW" <<'PY'
import sys
f,old,new=sys.argv[1:4]
s=open(f).read()
n=s.count(old)
if n!=1:
    print("substitution matches %d times"%n); sys.exit(1)
open(f,'w').write(s.replace(old,new))
PY
mkdir -p /verif/mutants/$ID
git diff > /verif/mutants/$ID/$NAME.patch
git checkout -q -- .
echo "wrote mutants/$ID/$NAME.patch"
