#!/bin/bash
# usage: tools/mutcheck.sh (-r <commit> | -p <patch.diff>) <property id>...
# Runs checks against a scratch copy of /repo with a patch applied (or a commit reverted).
# Evidence of these runs goes to a scratch directory, never to /verif/evidence.
set -e
MODE=$1; ARG=$2; shift 2
S=/var/tmp/sv-mut2
rm -rf $S/repo; mkdir -p $S/repo $S/evidence
rsync -a --exclude target --exclude .git /repo/ $S/repo/
cd $S/repo
if [ "$MODE" = "-r" ]; then
  git -C /repo show "$ARG" | patch -R -p1 -s
else
  patch -p1 -s < "$ARG"
fi
cd /verif
for id in "$@"; do
  SV_REPO=$S/repo SV_TARGET_DIR=/verif/.cache/target-mut2 SV_EVIDENCE_DIR=$S/evidence ./sv check $id || true
done
rm -rf $S/repo
