#!/usr/bin/env python3
"""write seeded/<name>/meta.json from the agent's meta (only if missing)"""
import json, glob, os, sys
for d in sorted(glob.glob('/verif/seeded/*')):
    mp=os.path.join(d,'meta.json'); ap=os.path.join(d,'agent_meta.json')
    if os.path.exists(mp) or not os.path.exists(ap): continue
    m=json.load(open(ap))
    json.dump({"property":m["property"],"checked_by":[m["property"]],"summary":m.get("summary",""),"needs_to_manifest":m.get("needs_to_manifest",""),
      "origin":"independent sub-agent (given only the property text and a scratch worktree)",
      "confirmed_by_me":["tools/confirm_seed.sh: demo test passes on the unchanged tree and fails with patch.diff applied (run in the agent's worktree, then removed)",
        "the agent ran the existing tests of the affected crates with the patch applied: all pass (commands in agent_meta.json)"]},open(mp,'w'),indent=1)
    print("wrote",mp)
