use seglog::read::{ReadHint, Reader};
use seglog::write::Writer;

fn path(name: &str) -> std::path::PathBuf {
    let d = tempfile::tempdir().unwrap().keep();
    d.join(name)
}

#[test]
fn set_len_then_append_cursor() {
    let p = path("a.seg");
    let mut w = Writer::<0>::create(&p, 1 << 20, 0).unwrap();
    let (oa, _) = w.append(&[], b"AAAAAAAAAAAAAAAA").unwrap();
    let (ob, _) = w.append(&[], b"BBBBBBBBBBBBBBBBBBBBBBBBBBBBBBBB").unwrap();
    w.set_len(ob).unwrap();
    let (oc, _) = w.append(&[], b"CCCC").unwrap();
    assert_eq!(oc, ob);
    w.sync().unwrap();
    let mut r = Reader::<0>::open(&p, Some(w.flushed_offset())).unwrap();
    let ra = r.read_record(oa, ReadHint::Random).unwrap();
    assert_eq!(&*ra.data, b"AAAAAAAAAAAAAAAA");
    let rc = r.read_record(oc, ReadHint::Random);
    println!("read at oc: {:?}", rc.as_ref().map(|r| r.data.to_vec()));
    assert_eq!(&*rc.unwrap().data, b"CCCC");
}

#[test]
fn stale_read_ahead() {
    let p = path("b.seg");
    let mut w = Writer::<0>::create(&p, 1 << 20, 0).unwrap();
    let (oa, la) = w.append(&[], b"first").unwrap();
    w.sync().unwrap();
    let mut r = Reader::<0>::open(&p, Some(w.flushed_offset())).unwrap();
    let ra = r.read_record(oa, ReadHint::Sequential).unwrap();
    assert_eq!(&*ra.data, b"first");
    let (ob, _) = w.append(&[], b"second").unwrap();
    assert_eq!(ob, la as u64);
    w.sync().unwrap();
    let rb = r.read_record(ob, ReadHint::Sequential);
    println!("sequential read of second: {:?}", rb.as_ref().map(|r| r.data.to_vec()));
    assert_eq!(&*rb.unwrap().data, b"second");
}

#[test]
fn compression_expansion() {
    let p = path("c.seg");
    let mut w = Writer::<0>::create(&p, 1 << 20, 0).unwrap();
    w.enable_compression();
    // pseudo random incompressible bytes
    let mut x: u64 = 0x9E3779B97F4A7C15;
    let data: Vec<u8> = (0..1000).map(|_| { x ^= x << 13; x ^= x >> 7; x ^= x << 17; (x >> 24) as u8 }).collect();
    let (_, len) = w.append(&[], &data).unwrap();
    println!("uncompressed record would be {}, stored {}", 8 + data.len(), len);
    assert!(len <= 8 + data.len());
}
