use sierradb_protocol::{CurrentVersion, ExpectedVersion};
#[test]
fn gap_empty_vs_max() {
    let g = ExpectedVersion::Empty.gap_from(CurrentVersion::Current(u64::MAX));
    println!("{g:?}");
}
#[test]
fn gap_exact_max_vs_empty() {
    let g = ExpectedVersion::Exact(u64::MAX).gap_from(CurrentVersion::Empty);
    println!("{g:?}");
}
