use sierradb_topology::distribute_partition;
use sierradb_topology::test_helpers::create_test_manager_with_params;
#[test]
fn distribute_large_n() {
    let r = distribute_partition(65534, 65535, 3);
    println!("{r:?}");
    assert!(r.iter().all(|p| *p < 65535));
    assert_eq!(r.len(), 3);
}
#[test]
fn many_nodes_rf() {
    // N = 256 nodes, rf 3: every node should own some partitions
    let (m, _) = create_test_manager_with_params(0, 256, 1024, 256, 3);
    println!("node0 of 256 assigned: {}", m.assigned_partitions.len());
    assert!(!m.assigned_partitions.is_empty());
}
#[test]
fn placement_vs_server_rule() {
    // topology rule for N=2, buckets=4, partitions=8, rf=1
    for idx in 0..2 {
        let (m, _) = create_test_manager_with_params(idx, 2, 8, 4, 1);
        let mut v: Vec<_> = m.assigned_partitions.iter().map(|p| p % 4).collect();
        v.sort(); v.dedup();
        println!("topology: node {idx} buckets {v:?}");
    }
}
