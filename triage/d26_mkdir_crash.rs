//! Triage for C03: stream scan cursor is taken from the UNFILTERED last commit of a batch.
use std::path::Path;
use std::sync::Arc;
use std::time::Duration;

use sierradb::IterDirection;
use sierradb::StreamId;
use sierradb::bucket::segment::CommittedEvents;
use sierradb::database::{Database, DatabaseBuilder, ExpectedVersion, NewEvent, Transaction};
use sierradb::id::{uuid_to_partition_hash, uuid_v7_with_partition_hash};
use smallvec::SmallVec;
use uuid::Uuid;

const SEGMENT_SIZE: usize = 128 * 1024;
const PAYLOAD: usize = 2000;
const PARTITION_ID: u16 = 0;

fn open_db(dir: &Path) -> Database {
    DatabaseBuilder::new()
        .segment_size_bytes(SEGMENT_SIZE)
        .total_buckets(1)
        .bucket_ids(Arc::from(vec![0u16]))
        .reader_threads(1)
        .writer_threads(1)
        .compression(false)
        .sync_interval(Duration::from_millis(1))
        .open(dir)
        .expect("open database")
}

fn new_event(stream: &str, partition_key: Uuid) -> NewEvent {
    NewEvent {
        event_id: uuid_v7_with_partition_hash(uuid_to_partition_hash(partition_key)),
        stream_id: StreamId::new(stream).unwrap(),
        stream_version: ExpectedVersion::Any,
        event_name: "Evt".to_string(),
        timestamp: 1,
        metadata: vec![],
        payload: vec![0xAB; PAYLOAD],
    }
}


#[tokio::test]
async fn reopen_after_crash_between_mkdir_and_create() {
    let dir = tempfile::tempdir().unwrap();
    let key = Uuid::new_v4();
    let mut ids = Vec::new();
    {
        let db = open_db(dir.path());
        for _ in 0..5 {
            let ev = new_event("stream-a", key);
            ids.push(ev.event_id);
            let events: SmallVec<[NewEvent; 4]> = smallvec::smallvec![ev];
            db.append_events(Transaction::new(key, PARTITION_ID, events).unwrap()).await.expect("append");
        }
        db.shutdown().await;
    }
    // the state a crash leaves between SegmentKind::ensure_segment_dir(next) and BucketSegmentWriter::create(next)
    let seg_dir = dir.path().join("buckets").join("00000").join("segments");
    let mut names: Vec<_> = std::fs::read_dir(&seg_dir).unwrap().map(|e| e.unwrap().file_name().into_string().unwrap()).collect();
    names.sort();
    println!("segments before: {names:?}");
    let next = format!("{:010}", names.last().unwrap().parse::<u32>().unwrap() + 1);
    std::fs::create_dir(seg_dir.join(&next)).unwrap();

    let db = DatabaseBuilder::new()
        .segment_size_bytes(SEGMENT_SIZE)
        .total_buckets(1)
        .bucket_ids(Arc::from(vec![0u16]))
        .reader_threads(1)
        .writer_threads(1)
        .compression(false)
        .sync_interval(Duration::from_millis(1))
        .open(dir.path());
    let db = match db {
        Ok(db) => db,
        Err(err) => panic!("reopen failed: {err}"),
    };
    for id in &ids {
        let got = db.read_event(PARTITION_ID, *id).await.expect("read_event");
        assert!(got.is_some(), "acknowledged event {id} not found by id after reopen");
    }
    let ev = new_event("stream-a", key);
    let events: SmallVec<[NewEvent; 4]> = smallvec::smallvec![ev];
    let res = db.append_events(Transaction::new(key, PARTITION_ID, events).unwrap()).await.expect("append after reopen");
    assert_eq!(res.first_partition_sequence, 5);
    db.shutdown().await;
}
