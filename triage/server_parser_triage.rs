use combine::{Parser, eof};
use redis_protocol::resp3::types::BytesFrame;
use sierradb_server::parser::frame_stream;
use sierradb_server::request::esub::ESub;
use sierradb_server::request::epsub::EPSub;

fn frames(args: &[&str]) -> Vec<BytesFrame> {
    args.iter().map(|a| BytesFrame::BlobString { data: a.as_bytes().to_vec().into(), attributes: None }).collect()
}

#[test]
fn t6_esub_forms() {
    for args in [
        vec!["user-123"],
        vec!["user-123", "WINDOW", "100"],
        vec!["user-123", "FROM", "50", "WINDOW", "100"],
        vec!["user-1", "user-2", "FROM", "LATEST", "WINDOW", "500"],
        vec!["user-1", "user-2", "FROM", "MAP", "user-1=10", "user-2=20", "WINDOW", "50"],
        vec!["user-1", "user-2", "FROM", "MAP", "user-1=10", "user-2=20"],
    ] {
        let f = frames(&args);
        match ESub::parser().skip(eof()).parse(frame_stream(&f)) {
            Ok((cmd, _)) => println!("T6 ESUB {args:?} -> {:?} window={:?}", cmd.matcher, cmd.window_size),
            Err(e) => println!("T6 ESUB {args:?} -> ERROR {e}"),
        }
    }
    for args in [vec!["5", "FROM", "100", "WINDOW", "50"], vec!["1,2,3", "FROM", "MAP", "1=100", "2=200", "DEFAULT", "0", "WINDOW", "500"], vec!["550e8400-e29b-41d4-a716-446655440000"]] {
        let f = frames(&args);
        match EPSub::parser().skip(eof()).parse(frame_stream(&f)) {
            Ok((cmd, _)) => println!("T6 EPSUB {args:?} -> {:?} window={:?}", cmd.matcher, cmd.window_size),
            Err(e) => println!("T6 EPSUB {args:?} -> ERROR {e}"),
        }
    }
}
