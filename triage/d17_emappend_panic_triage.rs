use std::{collections::HashSet, time::Duration};
use kameo::actor::Spawn;
use libp2p::identity::Keypair;
use sierradb::database::DatabaseBuilder;
use sierradb_cluster::{ClusterActor, ClusterArgs};
use sierradb_server::server::Server;
use tokio::io::{AsyncReadExt, AsyncWriteExt};
use tokio_util::sync::CancellationToken;

fn resp(args: &[&str]) -> Vec<u8> {
    let mut v = format!("*{}\r\n", args.len()).into_bytes();
    for a in args { v.extend(format!("${}\r\n{}\r\n", a.len(), a).into_bytes()); }
    v
}

#[tokio::test(flavor = "multi_thread")]
async fn d17_emappend_new_stream() {
    let dir = std::env::temp_dir().join(format!("d17-{}", std::process::id()));
    let _ = std::fs::remove_dir_all(&dir);
    let database = DatabaseBuilder::new().total_buckets(4).bucket_ids_from_range(0..4).open(&dir).unwrap();
    let caches = database.reader_pool().caches().clone();
    let cluster_ref = ClusterActor::spawn(ClusterArgs {
        keypair: Keypair::generate_ed25519(), database: database.clone(), listen_addrs: vec![], node_count: 1, node_index: 0,
        bucket_count: 4, partition_count: 32, replication_factor: 1, assigned_partitions: HashSet::from_iter(0..32),
        heartbeat_timeout: Duration::from_millis(1_000), heartbeat_interval: Duration::from_millis(6_000),
        replication_buffer_size: 1_000, replication_buffer_timeout: Duration::from_millis(8_000),
        replication_catchup_timeout: Duration::from_millis(2_000), mdns: false,
    });
    let shutdown = CancellationToken::new();
    tokio::spawn(Server::new(cluster_ref, caches, 32, 1 << 20, false, shutdown.clone()).listen("127.0.0.1:39123"));
    tokio::time::sleep(Duration::from_millis(300)).await;
    let mut s = tokio::net::TcpStream::connect("127.0.0.1:39123").await.unwrap();
    s.write_all(&resp(&["PING"])).await.unwrap();
    let mut buf = vec![0u8; 4096];
    let n = s.read(&mut buf).await.unwrap();
    println!("D17 PING -> {:?}", String::from_utf8_lossy(&buf[..n]));
    s.write_all(&resp(&["EMAPPEND", "550e8400-e29b-41d4-a716-446655440000", "brand-new-stream", "Created", "EXPECTED_VERSION", "empty", "PAYLOAD", "{}"])).await.unwrap();
    let r = tokio::time::timeout(Duration::from_secs(3), s.read(&mut buf)).await;
    match r {
        Ok(Ok(0)) => println!("D17 EMAPPEND on a new stream -> connection closed by server without a reply"),
        Ok(Ok(n)) => println!("D17 EMAPPEND -> {:?}", String::from_utf8_lossy(&buf[..n])),
        other => println!("D17 EMAPPEND -> {other:?}"),
    }
    let _ = std::fs::remove_dir_all(&dir);
}
