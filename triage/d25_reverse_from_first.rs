//! Triage for C03: stream scan cursor is taken from the UNFILTERED last commit of a batch.
use std::path::Path;
use std::sync::Arc;
use std::time::Duration;

use sierradb::IterDirection;
use sierradb::StreamId;
use sierradb::bucket::segment::CommittedEvents;
use sierradb::database::{Database, DatabaseBuilder, ExpectedVersion, NewEvent, Transaction};
use sierradb::id::{uuid_to_partition_hash, uuid_v7_with_partition_hash};
use smallvec::SmallVec;
use uuid::Uuid;

const SEGMENT_SIZE: usize = 128 * 1024;
const PAYLOAD: usize = 2000;
const PARTITION_ID: u16 = 0;

fn open_db(dir: &Path) -> Database {
    DatabaseBuilder::new()
        .segment_size_bytes(SEGMENT_SIZE)
        .total_buckets(1)
        .bucket_ids(Arc::from(vec![0u16]))
        .reader_threads(1)
        .writer_threads(1)
        .compression(false)
        .sync_interval(Duration::from_millis(1))
        .open(dir)
        .expect("open database")
}

fn new_event(stream: &str, partition_key: Uuid) -> NewEvent {
    NewEvent {
        event_id: uuid_v7_with_partition_hash(uuid_to_partition_hash(partition_key)),
        stream_id: StreamId::new(stream).unwrap(),
        stream_version: ExpectedVersion::Any,
        event_name: "Evt".to_string(),
        timestamp: 1,
        metadata: vec![],
        payload: vec![0xAB; PAYLOAD],
    }
}


async fn scan(db: &Database, stream: &str, from: u64, dir: IterDirection) -> Vec<u64> {
    let mut iter = db
        .read_stream(PARTITION_ID, StreamId::new(stream).unwrap(), from, dir)
        .await
        .expect("read_stream");
    let mut seen = Vec::new();
    while let Some(batch) = iter.next_batch(10).await.expect("next_batch") {
        for commit in batch {
            match commit {
                CommittedEvents::Single(e) => seen.push(e.stream_version),
                CommittedEvents::Transaction { events, .. } => {
                    for e in events.iter() {
                        seen.push(e.stream_version);
                    }
                }
            }
        }
    }
    seen
}

async fn scan_p(db: &Database, from: u64, dir: IterDirection) -> Vec<u64> {
    let mut iter = db.read_partition(PARTITION_ID, from, dir).await.expect("read_partition");
    let mut seen = Vec::new();
    while let Some(batch) = iter.next_batch(10).await.expect("next_batch") {
        for commit in batch {
            match commit {
                CommittedEvents::Single(e) => seen.push(e.partition_sequence),
                CommittedEvents::Transaction { events, .. } => {
                    for e in events.iter() {
                        seen.push(e.partition_sequence);
                    }
                }
            }
        }
    }
    seen
}

#[tokio::test]
async fn reverse_scan_from_first_position_of_segment() {
    let dir = tempfile::tempdir().unwrap();
    let key = Uuid::new_v4();
    let db = open_db(dir.path());
    for _ in 0..5 {
        let events: SmallVec<[NewEvent; 4]> = ["stream-a"].iter().map(|s| new_event(s, key)).collect();
        db.append_events(Transaction::new(key, PARTITION_ID, events).unwrap()).await.expect("append");
    }
    for from in [4u64, 3, 2, 1, 0] {
        let got = scan(&db, "stream-a", from, IterDirection::Reverse).await;
        let expected: Vec<u64> = (0..=from).rev().collect();
        println!("stream reverse from {from}: {got:?}");
        let gotp = scan_p(&db, from, IterDirection::Reverse).await;
        println!("partition reverse from {from}: {gotp:?}");
        assert_eq!(got, expected, "stream reverse from {from}");
        assert_eq!(gotp, expected, "partition reverse from {from}");
    }
    db.shutdown().await;
}
