use std::time::Duration;
use sierradb::StreamId;
use sierradb::database::{DatabaseBuilder, ExpectedVersion, NewEvent, Transaction};
use sierradb::id::{uuid_to_partition_hash, uuid_v7_with_partition_hash};
use smallvec::smallvec;
use uuid::Uuid;

fn ev(pk: Uuid, stream: &str, payload: usize) -> NewEvent {
    NewEvent { event_id: uuid_v7_with_partition_hash(uuid_to_partition_hash(pk)), stream_id: StreamId::new(stream).unwrap(),
        stream_version: ExpectedVersion::Any, event_name: "E".into(), timestamp: 1, metadata: vec![], payload: vec![7u8; payload] }
}

#[tokio::test(flavor = "multi_thread", worker_threads = 4)]
async fn d14_reader_goes_backwards_during_rollover() {
    let dir = tempfile::tempdir().unwrap();
    let db = DatabaseBuilder::new().segment_size_bytes(128 * 1024).total_buckets(1).bucket_ids(vec![0u16])
        .reader_threads(2).writer_threads(1).compression(false).open(dir.path()).unwrap();
    let pk = Uuid::new_v4();
    let first = ev(pk, "watched", 1024);
    let first_id = first.event_id;
    db.append_events(Transaction::new(pk, 0, smallvec![first]).unwrap()).await.unwrap();
    let sid = StreamId::new("watched").unwrap();
    assert!(db.get_stream_version(0, &sid).await.unwrap().is_some());
    // reader polls an acknowledged stream/event while the writer fills the segment and rolls over
    let reader = tokio::spawn({ let db = db.clone(); let sid = sid.clone(); async move {
        let mut lost = 0usize; let mut lost_event = 0usize; let mut n = 0usize;
        let until = std::time::Instant::now() + Duration::from_secs(3);
        while std::time::Instant::now() < until {
            n += 1;
            if db.get_stream_version(0, &sid).await.unwrap().is_none() { lost += 1; }
            if db.read_event(0, first_id).await.unwrap().is_none() { lost_event += 1; }
            tokio::time::sleep(Duration::from_millis(5)).await;
        }
        (n, lost, lost_event)
    }});
    for i in 0..40 { db.append_events(Transaction::new(pk, 0, smallvec![ev(pk, &format!("filler{i}"), 4096)]).unwrap()).await.unwrap(); }
    let (n, lost, lost_event) = reader.await.unwrap();
    println!("D14 polls={n} get_stream_version returned None {lost} times, read_event returned None {lost_event} times for an acknowledged event");
    assert_eq!(lost + lost_event, 0);
}
