use std::time::{Duration, Instant};
use sierradb::{IterDirection, StreamId};
use sierradb::bucket::segment::{BucketSegmentWriter, RawEvent, RecordHeader, ShortString, LongBytes};
use sierradb::bucket::{BucketSegmentId, SegmentKind};
use sierradb::database::{Database, DatabaseBuilder, ExpectedVersion, NewEvent, Transaction};
use sierradb::id::{uuid_to_partition_hash, uuid_v7_with_partition_hash};
use smallvec::smallvec;
use uuid::Uuid;

const SEG: usize = 128 * 1024;

fn ev(pk: Uuid, stream: &str, payload: usize) -> NewEvent {
    NewEvent {
        event_id: uuid_v7_with_partition_hash(uuid_to_partition_hash(pk)),
        stream_id: StreamId::new(stream).unwrap(),
        stream_version: ExpectedVersion::Any,
        event_name: "E".into(),
        timestamp: 1,
        metadata: vec![],
        payload: vec![7u8; payload],
    }
}

fn open(dir: &std::path::Path, sync: Duration) -> Result<Database, sierradb::error::DatabaseError> {
    DatabaseBuilder::new()
        .segment_size_bytes(SEG)
        .total_buckets(1)
        .bucket_ids(vec![0u16])
        .reader_threads(1)
        .writer_threads(1)
        .compression(false)
        .sync_interval(sync)
        .sync_idle_interval(sync)
        .max_batch_size(1_000_000)
        .min_sync_bytes(usize::MAX)
        .open(dir)
}

#[tokio::test(flavor = "multi_thread")]
async fn t1_ack_after_rollover_is_early() {
    let dir = tempfile::tempdir().unwrap();
    let db = open(dir.path(), Duration::from_secs(2)).unwrap();
    let pk = Uuid::new_v4();
    // fill segment 0 almost completely: 30 x ~4.1KB
    let mut futs = vec![];
    for i in 0..30 {
        let db = db.clone();
        futs.push(tokio::spawn(async move {
            db.append_events(Transaction::new(pk, 0, smallvec![ev(pk, &format!("s{i}"), 4096)]).unwrap()).await.unwrap()
        }));
    }
    for f in futs { f.await.unwrap(); }
    // this one does not fit -> rollover
    let e = ev(pk, "after-rollover", 8192);
    let id = e.event_id;
    let t = Instant::now();
    let res = db.append_events(Transaction::new(pk, 0, smallvec![e]).unwrap()).await.unwrap();
    let took = t.elapsed();
    let got = db.read_event(0, id).await.unwrap();
    println!("T1 append after rollover acked in {took:?} at offset {:?}; read_event right after ack -> found={}", res.offsets, got.is_some());
    assert!(got.is_some(), "acknowledged event not readable");
}

#[tokio::test(flavor = "multi_thread")]
async fn t2_uncommitted_tail_hydrated() {
    let dir = tempfile::tempdir().unwrap();
    let pk = Uuid::new_v4();
    {
        let db = open(dir.path(), Duration::from_millis(1)).unwrap();
        for i in 0..3 {
            db.append_events(Transaction::new(pk, 0, smallvec![ev(pk, "s", 10)]).unwrap()).await.unwrap();
            let _ = i;
        }
        db.shutdown().await;
        drop(db);
        tokio::time::sleep(Duration::from_millis(200)).await;
    }
    // crash residue: two events of a multi-event transaction, no commit record
    {
        let path = SegmentKind::Events.get_path(dir.path(), BucketSegmentId::new(0, 0));
        let mut w = BucketSegmentWriter::open(&path, SEG, false).unwrap();
        let txid = sierradb::id::set_uuid_flag(Uuid::new_v4(), false);
        for k in 0..2u64 {
            let e = ev(pk, "s", 10);
            w.append_event(0, &RawEvent {
                header: RecordHeader::new_event(1, txid).unwrap(),
                event_id: e.event_id.into_bytes(),
                partition_key: pk.into_bytes(),
                partition_id: 0,
                partition_sequence: 3 + k,
                stream_version: 3 + k,
                stream_id: e.stream_id,
                event_name: ShortString(e.event_name),
                metadata: LongBytes(e.metadata),
                payload: LongBytes(e.payload),
            }).unwrap();
        }
        w.sync().unwrap();
    }
    let db = open(dir.path(), Duration::from_millis(1)).unwrap();
    let seq = db.get_partition_sequence(0).await.unwrap();
    println!("T2 after reopen: latest partition sequence = {seq:?} (committed events: 0..=2)");
    let mut it = db.read_partition(0, 0, IterDirection::Forward).await.unwrap();
    let mut seen = vec![];
    loop {
        match it.next_batch(10).await {
            Ok(Some(cs)) => for c in cs { for e in c { seen.push(e.partition_sequence); } },
            Ok(None) => break,
            Err(err) => { println!("T2 partition scan error: {err}"); break; }
        }
    }
    println!("T2 partition scan after reopen -> {seen:?}");
    let r = db.append_events(Transaction::new(pk, 0, smallvec![ev(pk, "s", 10)]).unwrap()).await.unwrap();
    println!("T2 next append got sequence {} (expected 3)", r.first_partition_sequence);
    assert_eq!(r.first_partition_sequence, 3);
}

#[tokio::test(flavor = "multi_thread")]
async fn t3_empty_sealed_index_blocks_open() {
    let dir = tempfile::tempdir().unwrap();
    let pk = Uuid::new_v4();
    {
        let db = open(dir.path(), Duration::from_millis(1)).unwrap();
        for i in 0..40 {
            db.append_events(Transaction::new(pk, 0, smallvec![ev(pk, &format!("s{i}"), 4096)]).unwrap()).await.unwrap();
        }
        db.shutdown().await;
        drop(db);
        tokio::time::sleep(Duration::from_millis(500)).await;
    }
    // crash before background index flush: sealed segment 0 index file is empty
    let p = SegmentKind::EventIndex.get_path(dir.path(), BucketSegmentId::new(0, 0));
    println!("T3 sealed eidx len before truncate = {}", std::fs::metadata(&p).unwrap().len());
    std::fs::OpenOptions::new().write(true).open(&p).unwrap().set_len(0).unwrap();
    match open(dir.path(), Duration::from_millis(1)) {
        Ok(_) => println!("T3 reopen ok"),
        Err(e) => { println!("T3 reopen failed: {e}"); panic!("reopen blocked"); }
    }
}
