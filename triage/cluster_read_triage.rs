use std::{collections::HashSet, time::Duration};
use kameo::actor::Spawn;
use libp2p::identity::Keypair;
use sierradb::{StreamId, database::{DatabaseBuilder, ExpectedVersion, NewEvent, Transaction}, id::{uuid_to_partition_hash, uuid_v7_with_partition_hash}};
use sierradb_cluster::{ClusterActor, ClusterArgs, read::{ReadPartition, ReadStream, GetPartitionSequence}, write::execute::ExecuteTransaction};
use smallvec::smallvec;
use uuid::Uuid;

fn ev(pk: Uuid, stream: &str) -> NewEvent {
    NewEvent { event_id: uuid_v7_with_partition_hash(uuid_to_partition_hash(pk)), stream_id: StreamId::new(stream).unwrap(),
        stream_version: ExpectedVersion::Any, event_name: "E".into(), timestamp: 1, metadata: vec![], payload: vec![1,2,3] }
}

#[tokio::test(flavor = "multi_thread")]
async fn t4_reads_beyond_watermark() {
    let dir = tempfile::tempdir().unwrap();
    let database = DatabaseBuilder::new().total_buckets(4).bucket_ids_from_range(0..4).open(dir.path()).unwrap();
    let cluster_ref = ClusterActor::spawn(ClusterArgs {
        keypair: Keypair::generate_ed25519(), database: database.clone(), listen_addrs: vec![], node_count: 1, node_index: 0,
        bucket_count: 4, partition_count: 32, replication_factor: 1, assigned_partitions: HashSet::from_iter(0..32),
        heartbeat_timeout: Duration::from_millis(1_000), heartbeat_interval: Duration::from_millis(6_000),
        replication_buffer_size: 1_000, replication_buffer_timeout: Duration::from_millis(8_000),
        replication_catchup_timeout: Duration::from_millis(2_000), mdns: false,
    });
    let pk = Uuid::new_v4();
    let pid = uuid_to_partition_hash(pk) % 32;
    // one confirmed two-event transaction through the cluster path: sequences 0,1 -> watermark 2
    cluster_ref.ask(ExecuteTransaction::new(Transaction::new(pk, pid, smallvec![ev(pk, "s"), ev(pk, "s")]).unwrap())).await.unwrap();
    tokio::time::sleep(Duration::from_millis(200)).await;
    // a write that never reached quorum: stored locally with confirmation count 0 (sequences 2,3)
    database.append_events(Transaction::new(pk, pid, smallvec![ev(pk, "s"), ev(pk, "s")]).unwrap()).await.unwrap();
    let wm = cluster_ref.ask(GetPartitionSequence { partition_id: pid }).await.unwrap();
    println!("T4 confirmed latest sequence = {wm:?}");
    let p = cluster_ref.ask(ReadPartition { partition_id: pid, start_sequence: 0, end_sequence: None, count: 100 }).await.unwrap();
    println!("T4 ReadPartition -> {:?}", p.events.iter().map(|e| (e.partition_sequence, e.confirmation_count)).collect::<Vec<_>>());
    let s = cluster_ref.ask(ReadStream { partition_id: pid, stream_id: StreamId::new("s").unwrap(), start_version: 0, end_version: None, count: 100 }).await.unwrap();
    println!("T4 ReadStream -> {:?}", s.events.iter().map(|e| (e.partition_sequence, e.confirmation_count)).collect::<Vec<_>>());
    assert!(p.events.iter().all(|e| e.partition_sequence < 2));
    assert!(s.events.iter().all(|e| e.partition_sequence < 2));
}
