use std::time::Duration;
use sierradb::StreamId;
use sierradb::bucket::segment::{BucketSegmentReader, Record};
use sierradb::bucket::{BucketSegmentId, SegmentKind};
use sierradb::database::{DatabaseBuilder, ExpectedVersion, NewEvent, Transaction};
use sierradb::id::{uuid_to_partition_hash, uuid_v7_with_partition_hash};
use smallvec::smallvec;
use uuid::Uuid;

fn ev(pk: Uuid, stream: &str, payload: usize, ts: u64) -> NewEvent {
    NewEvent { event_id: uuid_v7_with_partition_hash(uuid_to_partition_hash(pk)), stream_id: StreamId::new(stream).unwrap(),
        stream_version: ExpectedVersion::Any, event_name: "E".into(), timestamp: ts, metadata: vec![], payload: vec![7u8; payload] }
}

#[tokio::test(flavor = "multi_thread")]
async fn d3_failed_write_right_after_rollover_is_not_rolled_back() {
    let dir = tempfile::tempdir().unwrap();
    let db = DatabaseBuilder::new().segment_size_bytes(128 * 1024).total_buckets(1).bucket_ids(vec![0u16])
        .reader_threads(1).writer_threads(1).compression(false).sync_interval(Duration::from_millis(1)).open(dir.path()).unwrap();
    let pk = Uuid::new_v4();
    for i in 0..30 { db.append_events(Transaction::new(pk, 0, smallvec![ev(pk, &format!("s{i}"), 4096, 1)]).unwrap()).await.unwrap(); }
    // does not fit -> rollover; second event has an out-of-range timestamp -> fails after the first event was written
    let bad = Transaction::new(pk, 0, smallvec![ev(pk, "a", 8192, 1), ev(pk, "b", 10, u64::MAX)]).unwrap();
    println!("D3 failing append -> {:?}", db.append_events(bad).await.map(|_| ()).map_err(|e| e.to_string()));
    let ok = db.append_events(Transaction::new(pk, 0, smallvec![ev(pk, "c", 10, 1)]).unwrap()).await.unwrap();
    println!("D3 next append ok at offsets {:?} seq {}", ok.offsets, ok.first_partition_sequence);
    db.shutdown().await;
    tokio::time::sleep(Duration::from_millis(300)).await;
    let path = SegmentKind::Events.get_path(dir.path(), BucketSegmentId::new(0, 1));
    let mut r = BucketSegmentReader::open(&path, None).unwrap();
    let mut it = r.iter();
    let mut recs = vec![];
    while let Ok(Some(rec)) = it.next_record() {
        match rec { Record::Event(e) => recs.push(format!("event(stream={}, seq={}, off={})", e.stream_id, e.partition_sequence, e.offset)), Record::Commit(c) => recs.push(format!("commit(off={})", c.offset)) }
    }
    println!("D3 records in the new segment: {recs:?}");
    assert!(!recs.iter().any(|r| r.contains("stream=a")), "orphan event of the failed transaction left in the log");
}
