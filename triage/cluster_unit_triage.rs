use std::time::Duration;
use sierradb_cluster::circuit_breaker::WriteCircuitBreaker;
use sierradb_cluster::confirmation::PartitionConfirmationState;
use sierradb_cluster::write::ordered_queue::{OrderedQueue, OrderedValue};

#[test]
fn breaker_probe_count() {
    let cb = WriteCircuitBreaker::new(1, Duration::from_millis(5), 3, 100);
    cb.record_failure();
    std::thread::sleep(Duration::from_millis(10));
    let mut admitted = 0;
    for _ in 0..10 { if cb.should_allow_request() { admitted += 1; } }
    println!("admitted probes in one half-open episode: {admitted} (max configured 3)");
    assert!(admitted <= 3);
}

#[test]
fn watermark_stale_lower_count() {
    let mut s = PartitionConfirmationState::new(0);
    s.update_confirmation(2, 2, 3);
    s.update_confirmation(2, 1, 3); // stale lower count delivered late
    s.update_confirmation(1, 2, 3);
    println!("watermark {}", s.confirmed_watermark.get());
    assert_eq!(s.confirmed_watermark.get(), 2);
}

#[derive(Debug)]
struct V(u32);
impl OrderedValue for V { fn key_eq(&self, o: &Self) -> bool { self.0 == o.0 } fn merge(&mut self, _n: Self) {} }
#[test]
fn queue_left_below_next() {
    let mut q: OrderedQueue<u64, V> = OrderedQueue::new(5, 10);
    q.insert(8, V(8)).unwrap();
    q.insert(6, V(6)).unwrap();
    q.progress_to(8); // catch-up applied 5..7
    let p = q.pop();
    println!("pop -> {p:?}; left in map: {:?}", q.map.keys().collect::<Vec<_>>());
    assert!(q.map.keys().all(|k| k >= q.next()));
}
