//! Triage for C03: stream scan cursor is taken from the UNFILTERED last commit of a batch.
use std::path::Path;
use std::sync::Arc;
use std::time::Duration;

use sierradb::IterDirection;
use sierradb::StreamId;
use sierradb::bucket::segment::CommittedEvents;
use sierradb::database::{Database, DatabaseBuilder, ExpectedVersion, NewEvent, Transaction};
use sierradb::id::{uuid_to_partition_hash, uuid_v7_with_partition_hash};
use smallvec::SmallVec;
use uuid::Uuid;

const SEGMENT_SIZE: usize = 128 * 1024;
const PAYLOAD: usize = 2000;
const PARTITION_ID: u16 = 0;

fn open_db(dir: &Path) -> Database {
    DatabaseBuilder::new()
        .segment_size_bytes(SEGMENT_SIZE)
        .total_buckets(1)
        .bucket_ids(Arc::from(vec![0u16]))
        .reader_threads(1)
        .writer_threads(1)
        .compression(false)
        .sync_interval(Duration::from_millis(1))
        .open(dir)
        .expect("open database")
}

fn new_event(stream: &str, partition_key: Uuid) -> NewEvent {
    NewEvent {
        event_id: uuid_v7_with_partition_hash(uuid_to_partition_hash(partition_key)),
        stream_id: StreamId::new(stream).unwrap(),
        stream_version: ExpectedVersion::Any,
        event_name: "Evt".to_string(),
        timestamp: 1,
        metadata: vec![],
        payload: vec![0xAB; PAYLOAD],
    }
}

async fn scan_stream(db: &Database, stream: &str, from: u64, limit: usize) -> Vec<u64> {
    let mut iter = db
        .read_stream(PARTITION_ID, StreamId::new(stream).unwrap(), from, IterDirection::Forward)
        .await
        .expect("read_stream");
    let mut seen = Vec::new();
    while let Some(batch) = iter.next_batch(limit).await.expect("next_batch") {
        for commit in batch {
            match commit {
                CommittedEvents::Single(e) => {
                    assert_eq!(e.stream_id.to_string(), stream);
                    seen.push(e.stream_version)
                }
                CommittedEvents::Transaction { events, .. } => {
                    for e in events.iter() {
                        assert_eq!(e.stream_id.to_string(), stream);
                        seen.push(e.stream_version);
                    }
                }
            }
        }
    }
    seen
}

#[tokio::test]
async fn stream_scan_across_segments_with_multi_stream_transactions() {
    let dir = tempfile::tempdir().unwrap();
    let key = Uuid::new_v4();
    let db = open_db(dir.path());
    let commits = 90u64;
    let mut rollovers = 0;
    let mut last_offset = 0u64;
    for _ in 0..commits {
        // one event of stream-a followed by two events of stream-b: b's versions run ahead of a's
        let events: SmallVec<[NewEvent; 4]> = ["stream-a", "stream-b", "stream-b"]
            .iter()
            .map(|s| new_event(s, key))
            .collect();
        let res = db
            .append_events(Transaction::new(key, PARTITION_ID, events).unwrap())
            .await
            .expect("append");
        let first = *res.offsets.first().unwrap();
        if first < last_offset {
            rollovers += 1;
        }
        last_offset = first;
    }
    assert!(rollovers >= 2, "history must span several sealed segments");
    for limit in [1usize, 7, 1000] {
        let got = scan_stream(&db, "stream-a", 0, limit).await;
        let expected: Vec<u64> = (0..commits).collect();
        assert_eq!(got, expected, "stream-a forward from 0, batch {limit}: got {} events", got.len());
        let got_b = scan_stream(&db, "stream-b", 0, limit).await;
        let expected_b: Vec<u64> = (0..commits * 2).collect();
        assert_eq!(got_b, expected_b, "stream-b forward from 0, batch {limit}: got {} events", got_b.len());
    }
    db.shutdown().await;
}
