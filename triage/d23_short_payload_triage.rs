use seglog::parse::parse_record;
use seglog::read::{ReadHint, Reader};
use seglog::write::Writer;

#[test]
fn parse_record_short_payload_is_an_error_not_a_panic() {
    // length word 0 (payload shorter than the 1-byte user header), non-zero checksum: not a truncation marker
    let mut bytes = vec![0u8; 64];
    bytes[4] = 0xAB;
    let r = std::panic::catch_unwind(|| parse_record::<1>(&bytes, 0).map(|_| ()));
    assert!(r.is_ok(), "parse_record panicked on a corrupted length word");
    assert!(r.unwrap().is_err());
}

#[test]
fn reader_short_payload_after_bit_flip() {
    let dir = tempfile::tempdir().unwrap();
    let path = dir.path().join("seg");
    let mut w = Writer::<1>::create(&path, 1 << 20, 0).unwrap();
    // header of 1 byte, empty data: payload_len = 1
    let (off, _len) = w.append(&[7u8], b"").unwrap();
    w.append(&[8u8], b"tail").unwrap();
    w.sync().unwrap();
    // flip the lowest bit of the length word: 1 -> 0
    use std::os::unix::fs::FileExt;
    let f = std::fs::OpenOptions::new().read(true).write(true).open(&path).unwrap();
    let mut b = [0u8; 1];
    f.read_exact_at(&mut b, off).unwrap();
    f.write_all_at(&[b[0] ^ 1], off).unwrap();
    let fo = w.flushed_offset();
    let res = std::panic::catch_unwind(move || {
        let mut r = Reader::<1>::open(&path, Some(fo)).unwrap();
        let a = r.read_record(off, ReadHint::Random).map(|_| ());
        let b = r.read_record(off, ReadHint::Sequential).map(|_| ());
        (a.is_err(), b.is_err())
    });
    assert!(res.is_ok(), "the reader panicked on a single bit flip in the length word");
    assert_eq!(res.unwrap(), (true, true));
}
